#!/venv/bin/python
"""Regenerates MANIFEST.json from the list of built checks (keeps it valid at all times)."""
import json, os, sys
ROOT = os.path.dirname(os.path.abspath(__file__))
props = [json.loads(l) for l in open(os.path.join(ROOT, "properties.jsonl"))]

BUILT = {
    # id: (engine, technique, level text, level note, design ref)
}
sys.path.insert(0, ROOT)
from checks import registry  # noqa
BUILT = registry.BUILT

checks = []
na = []
for p in props:
    pid = p["id"]
    if pid in BUILT:
        b = BUILT[pid]
        checks.append({
            "property_id": pid,
            "quick_cmd": "./check %s --tier quick" % pid,
            "thorough_cmd": "./check %s --tier thorough" % pid,
            "evidence_file": "/verif/evidence/%s.json" % pid,
            "replay_cmd_template": "./check %s --replay {path}" % pid,
            "engine": b["engine"],
            "level_claimed": {"category": "model_checking", "text": b["text"], "design_ref": b["design_ref"]},
            "level_note": b["note"],
            "technique": b["technique"],
        })
    else:
        na.append({"property_id": pid, "reason": registry.NOT_BUILT.get(pid, "check not built yet in this build phase (planned, see DESIGN.md section 3)")})
m = {
    "version": 1,
    "setup_cmd": "cd /verif && /venv/bin/python -m compileall -q mc checks && /venv/bin/python -m mc.selftest",
    "hooks": {
        "guard": "SIEVELIB_VERIF",
        "enable": "no hooks: everything is observed from outside (generic vars() snapshots, wrapped lexer generator, patched socket/ssl factories)",
        "baseline_off_cmd": "cd /repo && /venv/bin/python -m pytest -ra -q -p no:cacheprovider --timeout=900 --continue-on-collection-errors",
        "source_commits": [],
        "add_only": True,
    },
    "engines": registry.ENGINES,
    "checks": checks,
    "notes": "Bounded exhaustive exploration of the real implementation against executable reference models; see DESIGN.md.",
    "not_applicable": na,
}
json.dump(m, open(os.path.join(ROOT, "MANIFEST.json"), "w"), indent=1)
print("MANIFEST.json: %d checks, %d not_applicable" % (len(checks), len(na)))
