#!/bin/bash
# usage: ./run_all.sh [quick|thorough] [ids...]  -- runs the registered checks through the CLI and prints one line each
tier=${1:-quick}; shift
ids=${@:-C01 C02 C03 C04 C05 C06 C07 C08 C09 C10 C11 C12 C13 C14 C15 C16 C17 C18 C19 C20}
for c in $ids; do
  s=$(date +%s)
  out=$(./check $c --tier $tier 2>/dev/null); rc=$?
  e=$(date +%s)
  echo "$c rc=$rc $((e-s))s $(echo "$out" | tail -1 | cut -c1-160)"
  if [ $rc -ne 0 ]; then echo "$out" | grep -E "VIOLATION|HARNESS|signature" | head -6; fi
done
