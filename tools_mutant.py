#!/venv/bin/python
"""tools_mutant.py <patch.diff> [--checks C01,C03] [--tier quick] [--no-suite]

Copies /repo to a scratch directory outside /repo and /verif, applies the patch there, runs the pinned
suite on the copy (must pass) and the selected checks with VERIF_REPO=<copy>; prints which checks
report a VIOLATION. The copy is removed afterwards. Nothing is ever applied to /repo itself."""
import argparse, os, shutil, subprocess, sys, tempfile, json, re

ap = argparse.ArgumentParser()
ap.add_argument("patch")
ap.add_argument("--checks", default="")
ap.add_argument("--tier", default="quick")
ap.add_argument("--no-suite", action="store_true")
ap.add_argument("--show", type=int, default=3)
a = ap.parse_args()
ROOT = os.path.dirname(os.path.abspath(__file__))
tmp = tempfile.mkdtemp(prefix="sievemut_", dir="/tmp")
try:
    dst = os.path.join(tmp, "repo")
    shutil.copytree("/repo", dst, ignore=shutil.ignore_patterns(".git", "__pycache__", ".benchmarks", "*.egg-info"))
    r = subprocess.run(["patch", "-p1", "-s", "-i", os.path.abspath(a.patch)], cwd=dst, capture_output=True, text=True)
    if r.returncode != 0:
        print("PATCH FAILED", r.stdout, r.stderr)
        sys.exit(3)
    if not a.no_suite:
        r = subprocess.run(["/venv/bin/python", "-m", "pytest", "-q", "-p", "no:cacheprovider", "-x", "sievelib"], cwd=dst,
                           capture_output=True, text=True, env=dict(os.environ, PYTHONPATH=dst))
        tail = r.stdout.strip().splitlines()[-1] if r.stdout.strip() else r.stderr[-200:]
        print("suite:", tail)
        if r.returncode != 0:
            print("SUITE FAILS WITH THIS PATCH")
    checks = [c for c in a.checks.split(",") if c]
    res = {}
    for c in checks:
        r = subprocess.run([os.path.join(ROOT, "check"), c, "--tier", a.tier], capture_output=True, text=True,
                           env=dict(os.environ, VERIF_REPO=dst, VERIF_MAX_VIOLATION_LINES=str(a.show)))
        lines = [l for l in r.stdout.splitlines()]
        nv = sum(1 for l in lines if l.startswith("VIOLATION"))
        res[c] = (r.returncode, nv)
        print("== %s exit=%d violations-listed=%d" % (c, r.returncode, nv))
        for l in lines:
            if l.startswith(("VIOLATION", "  signature", "  witness", "HARNESS", c + " tier")):
                print("   ", l[:260])
        if r.returncode not in (0, 1):
            print(r.stderr[-800:])
    print("RESULT", json.dumps(res))
finally:
    shutil.rmtree(tmp, ignore_errors=True)
