#!/venv/bin/python
"""tools_seed.py <property id> <seed dir with patch.diff demo.py [notes.md]> [--name NAME] [--checks C01,C03] [--tier quick] [--keep]

Confirms a seeded property-breaking change in a scratch copy of /repo (outside /repo and /verif):
  1. demo.py exits 0 on the unmodified copy,
  2. the patch applies, the pinned suite still passes, demo.py now fails,
  3. runs the given checks (default: the property's own) with VERIF_REPO=<copy> and records which report a VIOLATION.
With --keep the artefacts and meta.json are stored under /verif/seeded/<name>/. The copy is always removed."""
import argparse, json, os, shutil, subprocess, sys, tempfile, time

ap = argparse.ArgumentParser()
ap.add_argument("prop")
ap.add_argument("src")
ap.add_argument("--name")
ap.add_argument("--checks")
ap.add_argument("--tier", default="quick")
ap.add_argument("--keep", action="store_true")
a = ap.parse_args()
ROOT = os.path.dirname(os.path.abspath(__file__))
prop = a.prop.upper()
checks = (a.checks or prop).split(",")
name = a.name or ("%s_%s" % (prop, os.path.basename(os.path.dirname(os.path.abspath(a.src).rstrip("/") + "/")) or "seed"))
tmp = tempfile.mkdtemp(prefix="sieveseed_", dir="/tmp")
meta = {"property": prop, "name": name, "ran": []}
ok = True
try:
    dst = os.path.join(tmp, "repo")
    shutil.copytree("/repo", dst, ignore=shutil.ignore_patterns(".git", "__pycache__", ".benchmarks", "*.egg-info"))
    env = dict(os.environ, PYTHONPATH=dst, PYTHONWARNINGS="ignore")
    demo = os.path.join(a.src, "demo.py")
    shutil.copy(demo, os.path.join(tmp, "demo.py"))

    def run_demo():
        r = subprocess.run(["timeout", "120", "/venv/bin/python", os.path.join(tmp, "demo.py")], cwd=dst, env=env, capture_output=True, text=True)
        return r.returncode, (r.stdout + r.stderr)[-400:]

    rc0, out0 = run_demo()
    meta["ran"].append({"cmd": "demo.py on unmodified tree", "exit": rc0})
    print("demo (unmodified): exit", rc0)
    if rc0 != 0:
        ok = False
        print(out0)
    r = subprocess.run(["patch", "-p1", "-s", "-i", os.path.abspath(os.path.join(a.src, "patch.diff"))], cwd=dst, capture_output=True, text=True)
    if r.returncode != 0:
        print("PATCH FAILED", r.stdout, r.stderr)
        sys.exit(3)
    r = subprocess.run(["/venv/bin/python", "-m", "pytest", "-q", "-p", "no:cacheprovider", "sievelib"], cwd=dst, capture_output=True, text=True, env=env)
    tail = r.stdout.strip().splitlines()[-1] if r.stdout.strip() else r.stderr[-200:]
    meta["ran"].append({"cmd": "pytest sievelib with the change", "exit": r.returncode, "tail": tail})
    print("suite with change:", tail)
    if r.returncode != 0:
        ok = False
    rc1, out1 = run_demo()
    meta["ran"].append({"cmd": "demo.py with the change", "exit": rc1})
    print("demo (changed): exit", rc1)
    if rc1 == 0:
        ok = False
    det = {}
    for c in checks:
        t0 = time.time()
        r = subprocess.run([os.path.join(ROOT, "check"), c, "--tier", a.tier], capture_output=True, text=True,
                           env=dict(os.environ, VERIF_REPO=dst, VERIF_MAX_VIOLATION_LINES="2"))
        lines = r.stdout.splitlines()
        nv = sum(1 for l in lines if l.startswith("VIOLATION"))
        det[c] = {"exit": r.returncode, "violation_lines": nv, "wall_s": round(time.time() - t0, 1)}
        print("== %s tier=%s exit=%d" % (c, a.tier, r.returncode))
        for l in lines:
            if l.startswith(("VIOLATION", "  signature", "  witness", "HARNESS")):
                print("   ", l[:240])
        if r.returncode not in (0, 1):
            print(r.stderr[-600:])
    meta["detected_by"] = {c: d for c, d in det.items()}
    meta["confirmed"] = ok
    print("CONFIRMED" if ok else "NOT CONFIRMED", json.dumps(det))
    if a.keep:
        out = os.path.join(ROOT, "seeded", name)
        os.makedirs(out, exist_ok=True)
        for f in ("patch.diff", "demo.py", "notes.md"):
            if os.path.exists(os.path.join(a.src, f)):
                shutil.copy(os.path.join(a.src, f), os.path.join(out, f))
        mp = os.path.join(out, "meta.json")
        old = json.load(open(mp)) if os.path.exists(mp) else {}
        old.update(meta)
        json.dump(old, open(mp, "w"), indent=1)
        print("stored in", out)
finally:
    shutil.rmtree(tmp, ignore_errors=True)
