"""Canonical forms of implementation objects.

tree_of_result(): generic tree of a Parser.result, in the same shape the reference PDA builds:

    node = (name, tags, positionals, tests, block)
      name        lower-case command name
      tags        sorted tuple of (tag spelled lower-case, parameter or None)
      positionals tuple of values in order
      tests       tuple of nodes (single test or test list)
      block       tuple of nodes, or None when the command has no block
    value = ('s', raw) | ('n', raw) | ('sl', (raw, ...))      raw = source spelling

parser_config(): generic snapshot of the parser's configuration used as exploration key.
"""
import re

_UNIQ_STR = re.compile(r'^"s\d+"$')
_UNIQ_NUM = re.compile(r"^1\d\d\d$")


def _value(v, ns):
    Command = ns.commands.Command
    if isinstance(v, Command):
        return ("test", node_of(v, ns))
    if isinstance(v, (list, tuple)):
        if v and all(isinstance(i, Command) for i in v):
            return ("tests", tuple(node_of(i, ns) for i in v))
        return ("sl", tuple(i if isinstance(i, str) else repr(i) for i in v))
    if isinstance(v, str):
        if v[:1].isdigit():
            return ("n", v)
        return ("s", v)
    if isinstance(v, int):
        return ("n", str(v))
    return ("?", repr(v))


def node_of(cmd, ns):
    defs = list(getattr(cmd, "args_definition", []) or [])
    order = {d["name"]: i for i, d in enumerate(defs)}
    tags = []
    pos = []
    tests = []
    names = sorted(cmd.arguments.keys(), key=lambda n: order.get(n, 10**6))
    for n in names:
        v = cmd.arguments[n]
        d = defs[order[n]] if n in order else {"type": []}
        if isinstance(v, str) and v.startswith(":"):
            param = None
            if n in cmd.extra_arguments:
                param = _value(cmd.extra_arguments[n], ns)
            tags.append((v.lower(), param))
            continue
        val = _value(v, ns)
        if val[0] == "test":
            tests.append(val[1])
        elif val[0] == "tests":
            tests.extend(val[1])
        else:
            pos.append(val)
    # parameters recorded for a tag that is itself missing would be invented data
    for n in cmd.extra_arguments:
        if n not in cmd.arguments:
            tags.append(("<orphan:%s>" % n, _value(cmd.extra_arguments[n], ns)))
    block = None
    if getattr(cmd, "accept_children", False) and cmd.get_type() == "control":
        block = tuple(node_of(c, ns) for c in cmd.children)
    elif cmd.children:
        block = tuple(node_of(c, ns) for c in cmd.children)
    return (cmd.name, tuple(sorted(tags, key=repr)), tuple(pos), tuple(tests), block)


def tree_of_result(result, ns):
    return tuple(node_of(c, ns) for c in result)


def tree_tokens(tree):
    """Multiset (sorted list) of the source tokens a canonical tree accounts for."""
    out = []

    def val(v):
        if v is None:
            return
        if v[0] == "sl":
            out.extend(("s", i) for i in v[1])
        else:
            out.append((v[0], v[1]))

    def walk(n):
        out.append(("id", n[0]))
        for t, p in n[1]:
            out.append(("tag", t))
            val(p)
        for v in n[2]:
            val(v)
        for t in n[3]:
            walk(t)
        for c in n[4] or ():
            walk(c)

    for n in tree:
        walk(n)
    return sorted(out)


def tree_count(tree):
    cnt = 0

    def walk(n):
        nonlocal cnt
        cnt += 1
        for t in n[3]:
            walk(t)
        for c in n[4] or ():
            walk(c)

    for n in tree:
        walk(n)
    return cnt


# ---------------------------------------------------------------------------------------------
# parser configuration (exploration key)


def _norm_scalar(v):
    if isinstance(v, str):
        if _UNIQ_STR.match(v) or _UNIQ_STR.match('"%s"' % v):
            return '"s#"'
        if _UNIQ_NUM.match(v):
            return "#"
        if v.startswith("text:"):
            return "text:#"
        return v
    return v


def _norm_value(v, ns):
    Command = ns.commands.Command
    if isinstance(v, Command):
        return ("cmd", v.name)
    if isinstance(v, (list, tuple)):
        return tuple(_norm_value(i, ns) for i in v)
    if isinstance(v, (str, int, float, bool)) or v is None:
        return _norm_scalar(v)
    if isinstance(v, bytes):
        return v
    if isinstance(v, dict):
        return tuple(sorted((k, _norm_value(x, ns)) for k, x in v.items()))
    return repr(type(v))


def _cmd_frame(cmd, ns):
    cur = cmd.curarg["name"] if isinstance(getattr(cmd, "curarg", None), dict) else None
    kids = tuple(c.name for c in cmd.children[-2:])
    return (
        type(cmd).__name__,
        getattr(cmd, "nextargpos", None),
        getattr(cmd, "rargs_cnt", None),
        getattr(cmd, "required_args", None),
        cur,
        tuple(sorted((k, _norm_value(v, ns)) for k, v in cmd.arguments.items())),
        tuple(sorted((k, _norm_value(v, ns)) for k, v in cmd.extra_arguments.items())),
        kids,
        len(cmd.children) >= 2,
    )


def parser_config(parser, ns):
    """Generic configuration of a Parser: every attribute found in vars(), spine only."""
    out = []
    Command = ns.commands.Command
    for k, v in sorted(vars(parser).items()):
        k = k.replace("_Parser__", "")
        if k in ("lexer", "debug", "error", "error_pos", "hash_comments"):
            continue
        if k == "result":
            out.append((k, v[-1].name if v else None))
            continue
        if callable(v) and hasattr(v, "__name__"):
            out.append((k, v.__name__))
            continue
        if isinstance(v, Command):
            spine = []
            c = v
            guard = 0
            while c is not None and guard < 64:
                spine.append(_cmd_frame(c, ns))
                c = c.parent
                guard += 1
            out.append((k, tuple(spine)))
            continue
        out.append((k, _norm_value(v, ns)))
    out.append(("loaded", tuple(_norm_value(list(ns.commands.RequireCommand.loaded_extensions), ns))))
    return tuple(out)
