"""Words over symbolic alphabets and their rendering to script bytes.

A *word* is a tuple of symbols; a symbol expands to one or more raw tokens:

  ';' ',' '(' ')' '[' ']' '{' '}'     punctuation
  STR  NUM  ML                        position-unique string "s<k>", number 1<kkk>, multi-line text
  LIST1 LIST2                         [ "s<k>" ]   [ "s<k>" , "s<k+1>" ]
  "..."                               that quoted string, spelled exactly
  :tag  123K  name                    tag / number / identifier spelled as given
  RAW:<text>                          raw bytes (lexically invalid or unusual spellings)
  'a b c'                             macro: a phrase of symbols (split on blanks)

Position-unique values make a dropped, duplicated, overwritten or mis-attached argument visible in
the tree without enlarging the alphabet.
"""

PUNCT = set("[](){};,")


def expand(word):
    """word -> list of (kind, text) raw tokens; kinds: id tag num str ml raw + punctuation."""
    out = []

    def one(sym):
        k = len(out)
        if sym in PUNCT:
            out.append((sym, sym))
        elif sym == "STR":
            out.append(("str", '"s%d"' % k))
        elif sym == "NUM":
            out.append(("num", "1%03d" % k))
        elif sym == "ML":
            out.append(("ml", "text:\ns%d\n." % k))
        elif sym == "LIST1":
            out.append(("[", "["))
            out.append(("str", '"s%d"' % (k + 1)))
            out.append(("]", "]"))
        elif sym == "LIST2":
            out.append(("[", "["))
            out.append(("str", '"s%d"' % (k + 1)))
            out.append((",", ","))
            out.append(("str", '"s%d"' % (k + 3)))
            out.append(("]", "]"))
        elif sym == "LISTDUP":
            for j, tkn in enumerate(("[", '"dup"', ",", '"x%d"' % k, ",", '"dup"', "]")):
                out.append(("str" if tkn.startswith('"') else tkn, tkn))
        elif sym.startswith("GLUE:"):
            out.append(("glue", sym[5:]))  # raw text written directly after the previous token, without any separator
        elif sym.startswith("RAW:"):
            out.append(("raw", sym[4:]))
        elif sym.startswith('"'):
            out.append(("str", sym))
        elif sym[:5].lower() == "text:":
            out.append(("ml", sym))
        elif " " in sym:
            for s in sym.split():
                one(s)
        elif sym.startswith(":"):
            out.append(("tag", sym))
        elif sym[0].isdigit():
            out.append(("num", sym))
        else:
            out.append(("id", sym))

    for s in word:
        one(s)
    return out


LAYOUTS = ("space", "lf", "crlf", "comments", "upper", "blank", "rawcomments")
MIXED_SEPS = (b" ", b"\n", b" /* \xc3\xa9 */ ", b"\r\n", b" # \xc3\xa9\xc3\xa9\n", b"\t", b"\n\n  ")
MULTILINE_LAYOUTS = ("lf", "crlf", "comments")


def _flip(text):
    return text.upper()


def render(word, layout="space", raw=None):
    """Render a word (or pre-expanded raw tokens) to bytes under a layout."""
    toks = raw if raw is not None else expand(word)
    parts = []
    n = len(toks)
    sep_pending = False
    for i, (kind, text) in enumerate(toks):
        if layout == "upper" and kind in ("id", "tag"):
            text = _flip(text)
        b = text.encode("utf-8", "surrogateescape")  # (U+DC80..U+DCFF in a symbol stand for the raw octets 0x80..0xFF)
        if kind == "ml" and layout == "crlf":
            b = b.replace(b"\n", b"\r\n")
        if kind == "glue" and sep_pending:
            parts.pop()  # (not after a multi-line literal, whose line end belongs to the literal)
        sep_pending = False
        parts.append(b)
        last = i == n - 1
        # a multi-line literal ends with "." CRLF: the line end belongs to it
        if kind == "ml":
            parts.append(b"\r\n" if layout == "crlf" else b"\n")
            if last:
                continue
        if last:
            break
        if layout == "space" or layout == "upper":
            parts.append(b" ")
        elif layout in ("lf", "leadlf"):
            parts.append(b"\n")
        elif layout == "crlf":
            parts.append(b"\r\n")
        elif layout == "comments":
            parts.append(b" # c \xc3\xa9\xc3\xa9 ;{\n" if i % 2 == 0 else b" /* c \xc3\xa9 ; { */\n")
        elif layout == "blank":
            parts.append(b"\t \n\n ")
        elif layout == "rawcomments":
            # comments are skipped as octets: Latin-1 / arbitrary bytes inside them are legal, on the same line as the next token
            parts.append(b" /* caf\xe8 \xff */ " if i % 2 == 0 else b" # na\xefve \xe8\n")
        elif layout == "mixed":
            parts.append(MIXED_SEPS[i % len(MIXED_SEPS)])
        else:
            raise ValueError(layout)
        sep_pending = True
    body = b"".join(parts)
    if layout == "leadlf":
        body = b"\n" + body  # the script's very first octet is a line feed: line 1 is empty
    elif layout == "blank":
        body = b"\n\n \t" + body + b"\n\n"
    elif layout == "comments":
        body = b"# lead \xc3\xa9\n" + body + b"\n# trail"
    return body


def show(word):
    return " ".join(word)
