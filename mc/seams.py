"""Import of the tree under test and determinism seams.

Everything that touches sievelib goes through this module:

* `load()` puts $VERIF_REPO (default /repo) first on sys.path and asserts that the imported
  package really lives there, so a check always executes the current working tree.
* `run_parse()` executes one `Parser.parse` on the real implementation under a *step budget*
  (the lexer generator is wrapped from the outside, no hook in the library) and a coarse SIGALRM
  watchdog, and returns an `Obs` with the verdict class, error text/position, lexer steps, the
  canonical tree and the parser configuration snapshot taken when the token generator is
  exhausted (before the end-of-input checks clobber the expected-token set).
"""
import os
import signal
import sys

REPO = os.environ.get("VERIF_REPO", "/repo")

_loaded = None


class Hang(BaseException):
    """Raised by the step budget / watchdog; BaseException so the library cannot swallow it."""


class HarnessError(Exception):
    """The harness itself is inconsistent (never reported as a VIOLATION)."""


def load():
    """Import sievelib from the tree under test (once per process)."""
    global _loaded
    if _loaded is not None:
        return _loaded
    repo = os.path.realpath(REPO)
    if repo not in sys.path[:1]:
        sys.path.insert(0, repo)
    for name in list(sys.modules):
        if name == "sievelib" or name.startswith("sievelib."):
            del sys.modules[name]
    import sievelib  # noqa
    from sievelib import commands, parser, factory, managesieve, tools  # noqa

    here = os.path.realpath(sievelib.__file__)
    if not here.startswith(repo + os.sep):
        raise HarnessError("sievelib imported from %s, not from %s" % (here, repo))

    class NS:
        pass

    ns = NS()
    ns.sievelib = sievelib
    ns.commands = commands
    ns.parser = parser
    ns.factory = factory
    ns.managesieve = managesieve
    ns.tools = tools
    _loaded = ns
    return ns


# ---------------------------------------------------------------------------------------------
# watchdog

_WATCHDOG_S = float(os.environ.get("VERIF_WATCHDOG_S", "4"))


def _on_alarm(signum, frame):
    raise Hang("watchdog")


def arm_watchdog():
    signal.signal(signal.SIGALRM, _on_alarm)


class watchdog:
    """with watchdog(): ... -> raises Hang inside the block when it runs longer than the limit."""

    def __init__(self, seconds=None):
        self.seconds = seconds or _WATCHDOG_S

    def __enter__(self):
        signal.signal(signal.SIGALRM, _on_alarm)
        signal.setitimer(signal.ITIMER_REAL, self.seconds)
        return self

    def __exit__(self, *a):
        signal.setitimer(signal.ITIMER_REAL, 0)
        return False


# ---------------------------------------------------------------------------------------------
# parser execution


class Obs:
    """Observation of one Parser.parse execution."""

    __slots__ = (
        "verdict",  # 'ACC' | 'REJ' | 'EXC' | 'HANG' | 'BADRET'
        "exc",  # exception type name / repr for EXC
        "ret",  # raw return value
        "error",
        "error_pos",
        "steps",  # tokens yielded by the lexer
        "tree",  # canonical tree (list) for ACC
        "config",  # parser configuration snapshot at generator exhaustion (None if not reached)
        "result_ok",  # for ACC: result is a list of Command instances
        "parser",
    )

    def __init__(self):
        for s in self.__slots__:
            setattr(self, s, None)

    def brief(self):
        if self.verdict == "ACC":
            return "ACC"
        if self.verdict == "REJ":
            return "REJ(%s)" % (self.error,)
        if self.verdict == "EXC":
            return "EXC(%s)" % (self.exc,)
        return self.verdict


def step_budget(nbytes):
    return 3 * nbytes + 16


hang_count = 0
_hang_confirmed = False  # once one wall-clock hang has been confirmed in this worker, later ones are taken at face value
HANG_LIMIT = int(os.environ.get("VERIF_HANG_LIMIT", "3"))


def run_parse(text, parser=None, want_tree=True, want_config=False, via_file=None, keep_parser=False, _confirm=False):
    """Run Parser.parse(text) on the implementation under test.

    A hang is decided by the deterministic step budget; the wall-clock watchdog only exists for time spent inside one regex match.
    Because wall-clock time depends on the load of the machine, a watchdog hit is confirmed by running the same input once more with
    a five times longer limit before it is reported."""
    global hang_count, _hang_confirmed
    ns = load()
    from . import canon

    if hang_count >= HANG_LIMIT:
        # fail fast: this worker already reported HANG_LIMIT hangs (each costs a watchdog period); the rest of
        # its task is skipped - the check has failed anyway and says so
        o = Obs()
        o.verdict = "SKIPPED"
        o.steps = 0
        return o

    if parser is None:
        parser = ns.parser.Parser()
    nbytes = len(text.encode("utf-8", "surrogatepass")) if isinstance(text, str) else len(text)
    budget = step_budget(nbytes)
    obs = Obs()
    state = {"steps": 0, "config": None}
    lexer = getattr(parser, "lexer", None)
    if lexer is None or not callable(getattr(type(lexer), "scan", None)):
        # no seam to count tokens at (a refactored tree): the execution is still bounded by the watchdog
        class _NoLexer:
            pass
        lexer = _NoLexer()
        orig_scan = None
    else:
        orig_scan = type(lexer).scan

    def counted(text_):
        for tok in orig_scan(lexer, text_):
            state["steps"] += 1
            if state["steps"] > budget:
                raise Hang("step budget")
            yield tok
        if want_config:
            state["config"] = canon.parser_config(parser, ns)

    if orig_scan is not None:
        lexer.scan = counted
    # stale attributes from an earlier parse must not be mistaken for this one's
    try:
        with watchdog(max(_WATCHDOG_S, nbytes / 40000.0) * (5 if _confirm else 1)):
            if via_file is not None:
                ret = parser.parse_file(via_file)
            else:
                ret = parser.parse(text)
        obs.ret = ret
        if ret is True:
            obs.verdict = "ACC"
        elif ret is False:
            obs.verdict = "REJ"
            obs.error = getattr(parser, "error", None)
            obs.error_pos = getattr(parser, "error_pos", None)
        else:
            obs.verdict = "BADRET"
    except Hang as h:
        obs.verdict = "HANG"
        obs.exc = str(h)
        hang_count += 1
    except RecursionError as e:
        obs.verdict = "EXC"
        obs.exc = "RecursionError"
    except Exception as e:  # noqa
        obs.verdict = "EXC"
        obs.exc = "%s: %s" % (type(e).__name__, str(e)[:120])
    finally:
        try:
            del lexer.scan
        except AttributeError:
            pass
    if obs.verdict == "HANG" and obs.exc == "watchdog" and _confirm:
        _hang_confirmed = True
    if obs.verdict == "HANG" and obs.exc == "watchdog" and not _confirm and not _hang_confirmed:
        hang_count -= 1
        return run_parse(text, parser=parser, want_tree=want_tree, want_config=want_config, via_file=via_file, keep_parser=keep_parser, _confirm=True)
    obs.steps = state["steps"]
    obs.config = state["config"]
    if obs.verdict == "ACC":
        res = getattr(parser, "result", None)
        obs.result_ok = isinstance(res, list) and all(isinstance(c, ns.commands.Command) for c in res)
        if want_tree and obs.result_ok:
            try:
                obs.tree = canon.tree_of_result(res, ns)
            except Exception as e:  # noqa
                obs.tree = ("CANON-ERROR", "%s: %s" % (type(e).__name__, e))
    if keep_parser:
        obs.parser = parser
    return obs
