"""Controlled interleaving of several Parser.parse() calls (stateless exploration, CHESS style).

Each parse runs in its own OS thread but only the thread holding the baton runs; the baton changes hands only at the
scheduling points, which are the token boundaries of Lexer.scan (the generator is wrapped per parser: before every
token is handed to the parser, and once when the scan is exhausted). A schedule is the list of thread indices chosen at
those points; explore() enumerates every schedule (optionally only those with at most `bound` preemptions, a preemption
being a switch away from a thread that could have continued) by depth-first search with replay from the start.

What the scheduler does not own: code between two tokens runs atomically (the library has no locks and the
interpreter lock would hide nothing at this granularity: all state the parser touches between two tokens is touched
by one thread). The same schedule always gives the same observation (checked by selfcheck())."""
import threading

from . import seams, canon


class _Thread:
    __slots__ = ("sem", "done", "result", "exc", "steps")

    def __init__(self):
        self.sem = threading.Semaphore(0)
        self.done = False
        self.result = None
        self.exc = None
        self.steps = 0


class Run:
    """one execution of `texts[i]` on `parsers[i]` under a schedule prefix (default afterwards: keep running the current
    thread, then the lowest unfinished one)"""

    def __init__(self, ns, texts, schedule, shared_parser=False):
        self.ns = ns
        self.texts = texts
        self.schedule = list(schedule)
        self.trace = []  # (chosen, enabled tuple, running) per scheduling point
        self.threads = [_Thread() for _ in texts]
        self.main = threading.Semaphore(0)
        self.parsers = [ns.parser.Parser() for _ in texts]
        self.timeout = False

    # -- called inside parser threads
    def _point(self, i):
        self.main.release()
        self.threads[i].sem.acquire()

    def _body(self, i):
        th = self.threads[i]
        th.sem.acquire()
        p = self.parsers[i]
        lexer = getattr(p, "lexer", None)
        if lexer is None or not callable(getattr(type(lexer), "scan", None)):
            # no token seam in this tree: the parse runs as one atomic step
            try:
                ret = p.parse(self.texts[i])
                th.result = ("ACC", canon.tree_of_result(p.result, self.ns)) if ret is True else (("REJ", p.error, p.error_pos) if ret is False else ("BADRET", repr(ret)))
            except BaseException as e:  # noqa
                th.result = ("EXC", "%s: %s" % (type(e).__name__, str(e)[:100]))
            th.done = True
            self.main.release()
            return
        orig_scan = type(lexer).scan
        run = self
        budget = seams.step_budget(len(self.texts[i]))

        def scan(text_):
            for tok in orig_scan(lexer, text_):
                th.steps += 1
                if th.steps > budget:
                    raise seams.Hang("step budget")
                run._point(i)
                yield tok
            run._point(i)

        # a lexer object shared between parsers would make this wrapper shared too: keep it per thread by name
        try:
            lexer.scan = scan
            try:
                ret = p.parse(self.texts[i])
            finally:
                try:
                    del lexer.scan
                except AttributeError:
                    pass
            if ret is True:
                res = getattr(p, "result", None)
                ok = isinstance(res, list) and all(isinstance(c, self.ns.commands.Command) for c in res)
                th.result = ("ACC", canon.tree_of_result(res, self.ns) if ok else "BAD-RESULT")
            elif ret is False:
                th.result = ("REJ", p.error, p.error_pos)
            else:
                th.result = ("BADRET", repr(ret))
        except seams.Hang as e:
            th.result = ("HANG", str(e))
        except BaseException as e:  # noqa
            th.result = ("EXC", "%s: %s" % (type(e).__name__, str(e)[:100]))
        th.done = True
        self.main.release()

    # -- scheduler
    def execute(self):
        ths = [threading.Thread(target=self._body, args=(i,), daemon=True) for i in range(len(self.texts))]
        for t in ths:
            t.start()
        running = None
        k = 0
        while True:
            enabled = tuple(i for i, th in enumerate(self.threads) if not th.done)
            if not enabled:
                break
            # canonical order: the running thread first if it can continue, then ascending ids
            order = ([running] if running in enabled else []) + [i for i in enabled if i != running]
            if k < len(self.schedule):
                c = self.schedule[k]
                if c >= len(order):
                    raise AssertionError("schedule prefix diverged: choice %d of %d at point %d" % (c, len(order), k))
            else:
                c = 0
            chosen = order[c]
            self.trace.append((c, len(order), running in enabled))
            k += 1
            running = chosen
            self.threads[chosen].sem.release()
            if not self.main.acquire(timeout=20):
                self.timeout = True
                break
        return [th.result for th in self.threads]


def explore(ns, texts, bound=None, limit=None):
    """yields (schedule choices, results) for every schedule (with at most `bound` preemptions when given)"""
    stack = [[]]
    n = 0
    while stack:
        prefix = stack.pop()
        r = Run(ns, texts, prefix)
        results = r.execute()
        n += 1
        choices = [c for c, _n, _re in r.trace]
        yield choices, results, r
        if limit is not None and n >= limit:
            return
        # preemptions used before each point
        used = 0
        pre = []
        for c, nopt, running_enabled in r.trace:
            pre.append(used)
            if running_enabled and c != 0:
                used += 1
        for i in range(len(prefix), len(r.trace)):
            c, nopt, running_enabled = r.trace[i]
            for alt in range(1, nopt):
                cost = pre[i] + (1 if running_enabled else 0)
                if bound is not None and cost > bound:
                    continue
                stack.append(choices[:i] + [alt])


def sequential(ns, texts):
    """each text on a fresh parser, one after the other (the reference outcome of every thread)"""
    out = []
    for t in texts:
        r = Run(ns, [t], [])
        out.append(r.execute()[0])
    return out


def selfcheck(ns):
    texts = [b"keep; stop;", b'if true { discard; }']
    seen = {}
    for choices, results, r in explore(ns, texts, bound=1):
        r2 = Run(ns, texts, choices)
        res2 = r2.execute()
        if res2 != results:
            return "schedule %r is not reproducible" % (choices,)
        seen[tuple(choices)] = results
    if len(seen) < 5:
        return "only %d schedules explored" % len(seen)
    return None
