"""Bounded-exhaustive exploration machinery for tonioo/sievelib (see /verif/DESIGN.md)."""
