"""Setup-time self tests: reference model calibration against the frozen corpus (harness error if off)."""
import json
import os
import sys

ROOT = os.path.dirname(os.path.dirname(os.path.abspath(__file__)))


def main():
    from mc.refsieve import judge

    rec = json.load(open(os.path.join(ROOT, "corpus", "parser_corpus.json")))
    bad = 0
    n = 0
    for r in rec:
        if "AdditionalCommands" in r["test"]:
            continue
        n += 1
        v, _t, _l = judge(r["script"].encode("utf-8"))
        ok = (v.kind == "VALID" and r["expected"]) or (v.kind == "INVALID" and not r["expected"]) or v.kind == "IRREGULAR"
        if not ok:
            bad += 1
            print("calibration mismatch:", r["test"], r["expected"], v)
    print("refsieve calibration: %d pinned verdicts, %d mismatches" % (n, bad))
    return 2 if bad else 0


if __name__ == "__main__":
    sys.exit(main())
