"""Known-findings matching, VIOLATION / KNOWN-FINDING output, replay files.

known_findings.json: {"findings": [ {property, status: open|fixed, signature: [...], what, witness, commit?} ]}
An open entry matches only an equal signature. The file is never written at run time.
"""
import hashlib
import json
import os

ROOT = os.path.dirname(os.path.dirname(os.path.abspath(__file__)))
KF_PATH = os.path.join(ROOT, "known_findings.json")
MAX_LINES = int(os.environ.get("VERIF_MAX_VIOLATION_LINES", "25"))


def load_known():
    try:
        with open(KF_PATH) as fp:
            data = json.load(fp)
    except FileNotFoundError:
        return []
    return data.get("findings", [])


def sig_key(sig):
    return json.dumps(sig, sort_keys=True, ensure_ascii=False)


def group(violations):
    """group by signature keeping the smallest witness; returns ordered list of (sigkey, witness, count)"""
    g = {}
    order = []
    for v in violations:
        k = sig_key(v["signature"])
        size = len(json.dumps(v.get("text") or v.get("history") or v.get("case") or "", ensure_ascii=False))
        if k not in g:
            g[k] = [v, 1, size]
            order.append(k)
        else:
            g[k][1] += 1
            if size < g[k][2]:
                g[k][0] = v
                g[k][2] = size
    return [(k, g[k][0], g[k][1]) for k in order]


def write_replay(prop, v):
    d = os.path.join(ROOT, "replays", prop)
    os.makedirs(d, exist_ok=True)
    body = json.dumps(v, indent=1, sort_keys=True, ensure_ascii=True)  # lone surrogates in witnesses must survive the file
    h = hashlib.sha1(sig_key(v["signature"]).encode("utf-8")).hexdigest()[:16]
    path = os.path.join(d, h + ".json")
    with open(path, "w") as fp:
        fp.write(body)
    return path


def report_new(prop, violations, out):
    """Print VIOLATION lines for violations (already filtered of confirmed known findings).
    Returns (n_new_signatures, 0, n_total)."""
    kmap = {}
    groups = group(violations)
    new = 0
    kn = 0
    printed_known = set()
    for k, v, cnt in groups:
        if k in kmap:
            kn += 1
            if k not in printed_known:
                printed_known.add(k)
                out("KNOWN-FINDING: property=%s %s (x%d) witness=%s" % (
                    prop, kmap[k].get("what", ""), cnt, json.dumps(v.get("text") or v.get("witness") or "", ensure_ascii=False)[:160]))
            continue
        new += 1
        if new <= MAX_LINES:
            v = dict(v)
            v["count_in_run"] = cnt
            path = write_replay(prop, v)
            out("VIOLATION property=%s replay=%s" % (prop, path))
            out("  signature=%s x%d: %s" % (k, cnt, (v.get("what") or "")[:200]))
            w = v.get("text") if v.get("text") is not None else v.get("witness")
            if w is not None:
                out("  witness=%s observed=%s" % (json.dumps(w, ensure_ascii=False)[:240], str(v.get("observed"))[:160]))
    if new > MAX_LINES:
        out("  ... %d further violating signatures not listed" % (new - MAX_LINES))
    return new, kn, len(violations)
