"""Client-side harness for the ManageSieve checks: the real sievelib Client connected through
shimmed socket/ssl factories to a VSocket bound to a reference server."""
import socket as _socket
import ssl as _ssl
import time as _time

from . import seams, refms


class _Null:
    def write(self, *a):
        return 0

    def flush(self):
        pass


_DEVNULL = _Null()


def _exact(x):
    if isinstance(x, (bytearray, memoryview)):
        return (type(x).__name__, bytes(x))
    if isinstance(x, (list, tuple)):
        return (type(x).__name__,) + tuple(_exact(y) for y in x)
    if isinstance(x, dict):
        return ("dict",) + tuple(sorted((repr(k), _exact(v)) for k, v in x.items()))
    if isinstance(x, (bytes, str)) and type(x) not in (bytes, str):
        return (type(x).__name__, x)
    return x


class Outcome:
    __slots__ = ("kind", "value", "exc_type", "exc_msg", "errcode", "errmsg", "leftover")

    def __init__(self):
        self.kind = None  # 'ret' | 'exc' | 'livelock' | 'hang'
        self.value = None
        self.exc_type = None
        self.exc_msg = None
        self.errcode = None
        self.errmsg = None
        self.leftover = None

    def key(self, with_err=True):
        """hashable and type-exact: b"x", bytearray(b"x") and "x" are three different results (they compare or hash differently in the
        caller's hands), a list is not a tuple"""
        k = (self.kind, _exact(self.value), self.exc_type, self.exc_msg)
        if with_err:
            k += (_exact(self.errcode), _exact(self.errmsg))
        return k + (self.leftover,)

    def brief(self):
        if self.kind == "ret":
            return "ret %r" % (self.value,)
        if self.kind == "exc":
            return "exc %s(%s)" % (self.exc_type, self.exc_msg)
        return "%s(%s)" % (self.kind, self.exc_msg)

    def as_json(self):
        v = self.value
        return {"kind": self.kind, "value": repr(v), "exc": self.exc_type, "msg": self.exc_msg,
                "errcode": repr(self.errcode), "errmsg": repr(self.errmsg), "leftover": self.leftover}


class Session:
    def __init__(self, server):
        self.ns = seams.load()
        self.server = server
        self.plain = refms.VSocket(server, tls=False)
        self.env = {}
        self.client = None
        self.connect_outcome = None
        self.created = 0
        # the clock seam: whatever the client module reads from the `time` module is this virtual clock; the harness decides
        # how much time passes between two calls (idle_gap seconds before every call but the first)
        self.clock = 1.0e6
        self.idle_gap = 0
        self.calls = 0

    # shims -----------------------------------------------------------------
    def _install(self):
        ms = self.ns.managesieve
        sess = self

        class SockMod:
            timeout = _socket.timeout
            error = _socket.error
            socket = _socket.socket

            @staticmethod
            def create_connection(addr, *a, **k):
                sess.created += 1
                if sess.env.get("refuse_connection"):
                    sess.env["refused_last"] = True
                    raise _socket.error("connection refused (injected)")
                sess.env["refused_last"] = False
                if sess.created > 1:
                    # a second connect() on the same object gets a fresh connection to a fresh server
                    nxt = sess.env.get("next_server")
                    if nxt is not None:
                        sess.server = nxt
                        sess.env["next_server"] = None
                    sess.plain = refms.VSocket(sess.server, tls=False)
                    sess.env.pop("tls_socket", None)
                    sess.env.setdefault("connections", []).append(sess.plain)
                else:
                    sess.env.setdefault("connections", []).append(sess.plain)
                if not sess.server.greeted:
                    sess.server.greet()
                return sess.plain

        class SslMod:
            SSLError = _ssl.SSLError

            @staticmethod
            def create_default_context(*a, **k):
                return refms.TLSContext(sess.env)

        class _Fallback:
            """the shim answers for the factories the harness owns and defers to the real module for everything else (exception
            classes, constants), so that library code naming them keeps working"""

            def __init__(self, shim, real):
                self._shim, self._real = shim, real

            def __getattr__(self, name):
                if name in vars(self._shim):
                    v = vars(self._shim)[name]
                    return v.__func__ if isinstance(v, staticmethod) else v
                return getattr(self._real, name)

        class TimeMod:
            @staticmethod
            def monotonic():
                return sess.clock

            @staticmethod
            def time():
                return sess.clock + 1.7e9

            @staticmethod
            def perf_counter():
                return sess.clock

            @staticmethod
            def monotonic_ns():
                return int(sess.clock * 1e9)

            @staticmethod
            def time_ns():
                return int((sess.clock + 1.7e9) * 1e9)

            @staticmethod
            def sleep(x):
                sess.clock += max(0, x)

        self._saved = (ms.socket, ms.ssl)
        ms.socket = _Fallback(SockMod, _socket)
        ms.ssl = _Fallback(SslMod, _ssl)
        # clock: the module object (import time) or functions imported by name (from time import monotonic)
        self._saved_time = {}
        vt = _Fallback(TimeMod, _time)
        for k, v in list(vars(ms).items()):
            if v is _time:
                self._saved_time[k] = v
                setattr(ms, k, vt)
            elif callable(v) and getattr(v, "__module__", None) == "time" and getattr(v, "__name__", "") in vars(TimeMod):
                self._saved_time[k] = v
                setattr(ms, k, getattr(vt, v.__name__))

    def _restore(self):
        ms = self.ns.managesieve
        ms.socket, ms.ssl = self._saved
        for k, v in self._saved_time.items():
            setattr(ms, k, v)

    # operations ------------------------------------------------------------
    def new_client(self, debug=False):
        self.client = self.ns.managesieve.Client("mail.example.org", debug=debug)
        self.debug = debug
        return self.client

    def call(self, name, *args, **kw):
        """call a public method of the client under shims, budget and watchdog"""
        o = Outcome()
        c = self.client
        if self.calls:
            self.clock += self.idle_gap
        self.calls += 1
        self._install()
        import sys
        saved_stdout = sys.stdout
        if getattr(self, "debug", False):
            sys.stdout = _DEVNULL
        try:
            # (non-termination of the client is decided by the virtual socket's deterministic recv budget - Livelock; the wall-clock
            # limit is only a backstop and generous, so that a loaded machine cannot turn slowness into a verdict)
            with seams.watchdog(30):
                o.value = getattr(c, name)(*args, **kw)
            o.kind = "ret"
        except refms.Livelock as e:
            o.kind = "livelock"
            o.exc_msg = str(e)[:80]
        except seams.Hang as e:
            o.kind = "hang"
            o.exc_msg = str(e)
        except Exception as e:  # noqa
            o.kind = "exc"
            o.exc_type = type(e).__name__
            o.exc_msg = str(e)[:160]
        finally:
            self._restore()
            sys.stdout = saved_stdout
        o.errcode = getattr(c, "errcode", None)
        o.errmsg = getattr(c, "errmsg", None)
        o.leftover = self.unread()
        return o

    def unread(self):
        c = self.client
        buf = getattr(c, "_Client__read_buffer", None)
        if buf is None:
            buf = b""
            for k, v in vars(c).items():
                if k.endswith("read_buffer") and isinstance(v, (bytes, bytearray)):
                    buf = v
        return len(buf) + len(self.server.out)

    def cur_socket(self):
        return self.env.get("tls_socket") or self.plain

    def all_written(self):
        out = b"".join(s.written for s in self.env.get("connections", [self.plain]))
        t = self.env.get("tls_socket")
        if t is not None:
            out += t.written
        return out


def open_session(server, starttls=False, authmech=None, login="user", password="pass", authz="", connect=True, debug=False):
    s = Session(server)
    s.new_client(debug=debug)
    if connect:
        s.connect_outcome = s.call("connect", login, password, authz_id=authz, starttls=starttls, authmech=authmech)
    return s


def mark(sess):
    """position markers so that only the bytes of the next operation are looked at"""
    sock = sess.cur_socket()
    return (sock, len(sock.written), len(sess.server.log), len(sess.server.violations))


def written_since(sess, m):
    sock, n, _l, _v = m
    return sock.written[n:]


# the ten operations of the properties + logout/capability; args are filled by the checks
OPS = ("capability", "havespace", "listscripts", "getscript", "putscript", "checkscript", "deletescript",
       "renamescript", "setactive")
