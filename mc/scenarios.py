"""Parser scenarios (alphabets = sharp drivers for the branches visible in parser.py/commands.py)."""
from .refsieve import table as T

STRUCT = [";", ",", "(", ")", "[", "]", "{", "}"]

ALL_EXT = list(T.KNOWN_EXTENSIONS)


def require_all():
    w = ["require", "["]
    for i, e in enumerate(ALL_EXT):
        if i:
            w.append(",")
        w.append('"%s"' % e)
    w += ["]", ";"]
    return tuple(w)


REQ_ALL = require_all()


def scn_flow():
    return dict(name="flow", prefix=(), sigma=["if", "elsif", "else", "true", "keep", "stop", ";", "{", "}"])


def scn_flowblocks():
    """block structure with whole headers as single symbols: reaches deep nesting / sibling situations (else/elsif as first
    command of a block while the top-level result ends in an if, chains inside chains) within few symbols"""
    return dict(name="flowblocks", prefix=(), sigma=["if true {", "elsif true {", "else {", "}", "keep ;", "if false { }"])


def scn_tests():
    return dict(name="tests", prefix=(),
                sigma=["if", "not", "anyof", "allof", "true", "false", "header", "STR", ",", "(", ")", "{", "}", ";"])


def scn_lists():
    return dict(name="lists", prefix=(),
                sigma=["require", "keep", "redirect", "STR", "NUM", ":copy", ";", ",", "[", "]", "{", "}"])


def impl_command_identifiers():
    """identifiers derived from every name in sievelib.commands ending in 'Command' (found by
    introspection at run time, so base classes and later additions are hit automatically)"""
    from . import seams

    ns = seams.load()
    out = []
    for n in sorted(vars(ns.commands)):
        if n.endswith("Command") and isinstance(getattr(ns.commands, n), type):
            out.append(n[: -len("Command")].lower() or "command")
    return out


def scn_roles():
    ids = ["stop", "keep", "redirect", "reject", "require", "set", "true", "exists", "header", "size", "foo",
           "control", "action", "test", "unknown", "command"]
    sigma = sorted(set(ids)) + ["if", "not", "STR", "NUM", ":is", ":over", ";", "{", "}"]
    return dict(name="roles", prefix=(), sigma=sigma)


def scn_roles_all():
    """every identifier the implementation's namespace can resolve, in command and in test position"""
    ids = sorted(set(impl_command_identifiers()) | {"foo"})
    return dict(name="roles_all", prefix=REQ_ALL, sigma=ids + ["if", "not", "STR", ";", "{", "}"])


def scn_nondet():
    return dict(name="nondet", prefix=("require", '"imap4flags"', ";"),
                sigma=["if", "anyof", "not", "hasflag", "STR", "LIST1", ":is", ",", "(", ")", "{", "}", ";", "keep"])


def cmd_sigma(name):
    """own tags (each once lower case, first one also mixed case), valid and invalid parameter values,
    a foreign tag, STRING LIST1 LIST2 NUMBER NUMBER-K MULTILINE, a test identifier, terminators"""
    c = T.COMMANDS[name]
    sig = []
    vals = []
    for s in c["slots"]:
        for t, (ext, ptype, values) in s.items():
            sig.append(t)
            if values:
                vals.append(values[0])
    for p in c["pos"]:
        if isinstance(p, tuple):
            sig.extend(p[1])
    tags = list(sig)
    if tags:
        t0 = tags[0]
        sig.append(t0[0:2] + t0[2:].upper())
    for v in vals:
        if v not in sig:
            sig.append(v)
    if vals:
        sig.append('"zz"')
        # a listed value in another letter case: whatever the verdict, the tree must hold what was written
        up = vals[0].upper()
        if up != vals[0]:
            sig.append(up)
    foreign = ":foreign" if ":foreign" not in tags else ":other"
    sig.append(foreign)
    sig += ["STR", "LIST1", "LIST2", "LISTDUP", "NUM", "10K", "ML", "true"]
    return sig


def scn_args(name, with_require=True):
    c = T.COMMANDS[name]
    sig = cmd_sigma(name)
    prefix = REQ_ALL if with_require else ()
    if c["role"] == "test":
        prefix = prefix + ("if", name)
        sig += ["{", "}", ";", ",", "(", ")"]
    elif c["role"] == "action" or not c["block"]:
        prefix = prefix + (name,)
        sig += [";", "{", "}"]
    else:
        prefix = prefix + (name,)
        sig += [";", "{", "}", "(", ")", ","]
    return dict(name="args(%s)%s" % (name, "" if with_require else "-noreq"), prefix=prefix, sigma=sig)


def required_args_phrase(name):
    c = T.COMMANDS[name]
    out = []
    pos = c["pos"][-1:] if c["optfirst"] else c["pos"]
    for p in pos:
        if isinstance(p, tuple):
            out.append(p[1][0])
        elif p == "n":
            out.append("NUM")
        else:
            out.append("STR")
    if c["tests"] == 1:
        out.append("true")
    elif c["tests"] == "list":
        out.append("( true )")
    return out


def scn_args_noreq(name):
    """no require prefix; per-extension require phrases, the command in every position kind, its
    extension-bound tags (with parameter), and closers that supply the required arguments, so that a
    complete use is reached within 4-5 symbols"""
    c = T.COMMANDS[name]
    exts = set()
    if c["ext"]:
        exts.add(c["ext"])
    own = []
    for s in c["slots"]:
        for t, (ext, ptype, values) in sorted(s.items()):
            if ext:
                exts.add(ext)
                sym = t
                if ptype:
                    sym += " " + (values[0] if values else ("NUM" if ptype == "n" else "STR"))
                own.append(sym)
    plain = None
    for s in c["slots"]:
        for t, (ext, ptype, values) in sorted(s.items()):
            if not ext and not ptype and plain is None:
                plain = t
    if plain:
        own.append(plain)
    if own:
        t0 = own[0].split()
        own.append(" ".join([t0[0][0:2] + t0[0][2:].upper()] + t0[1:]))
    sig = ['require "%s" ;' % e for e in sorted(exts)]
    unrelated = "variables" if "variables" not in exts else "date"
    sig.append('require "%s" ;' % unrelated)
    args = " ".join(required_args_phrase(name))
    if c["role"] == "test":
        sig += ["if " + name, "if not " + name, "if anyof ( true , " + name, "if true { if " + name] + own
        sig += [(args + " {").strip(), (args + " ) {").strip(), "}", "keep ;"]
    elif c["block"]:
        sig += [name, "if true {"] + own + [(args + " {").strip(), "}", "keep ;"]
    else:
        sig += [name, "if true {", "if true { } else {"] + own + [(args + " ;").strip(), "}"]
    return dict(name="noreq(%s)" % name, prefix=(), sigma=sig)


def scn_lex():
    raws = [
        "1", "1K", "1k", "1M", "1g", "RAW:1T", "01",
        '""', '"a\\"b"', '"a\\\\"', '"a\nb"', '"\xe9"', 'RAW:"a',
        "text:\nabc\n.", "TEXT:\nabc\n.", "text:\n..x\n.", "text: #c\nabc\n.", "RAW:text:\nabc", "RAW:text:x\nabc\n.",
        "RAW:# c\n", "RAW:/* c */", "RAW:\x0c", "RAW:\x0b", "RAW:\t", "RAW:\r", "RAW:\ufeff", "RAW:/* unterminated", "RAW:&", "RAW:\xe9", "RAW::", "RAW:a-b",
        # octets that are not UTF-8, inside a string and as junk (U+DCxx stands for the raw octet xx): an encoded surrogate, an overlong
        # form, a code point above U+10FFFF, a lone lead octet, lone continuation octets
        '"\udced\udca0\udc80"', '"\udcc0\udc80"', '"\udcf4\udc90\udc80\udc80"', '"a\udce9"', '"\udc80"', "text:\n\udced\udcbf\udcbf\n.",
        "RAW:\udc80", "RAW:\udcbfz", "RAW:\udca9\udca9",
    ]
    sigma = ["redirect", "keep", "if", "size", ":over", "true", "STR", ";", "{", "}"] + raws
    return dict(name="lex", prefix=(), sigma=sigma)


TEST_PHRASES = [
    "true", "false", 'header :is STR STR', 'header :contains LIST2 LIST1', 'address :all :comparator "i;octet" STR STR',
    "exists LIST2", "size :over 10K", "not true", "not exists STR", "anyof ( true , false )",
    'allof ( header :matches STR STR , not size :under NUM )', 'envelope :domain STR STR', 'body :text :contains STR',
    'hasflag STR', 'currentdate :zone STR :is STR STR', 'date :originalzone :value "ge" STR STR STR',
    'header :regex STR STR', 'header :count "gt" STR STR',
]
ACTION_PHRASES = [
    "keep ;", "stop ;", "discard ;", 'fileinto STR ;', 'fileinto :copy :create STR ;', 'redirect :copy STR ;',
    'reject ML ;', 'setflag STR ;', 'addflag STR LIST2 ;', 'vacation :days NUM :subject STR STR ;',
    'vacation :addresses LIST2 :mime ML ;', 'set STR STR ;', 'keep :flags STR ;',
]


def scn_macro():
    sigma = ["if " + t + " {" for t in TEST_PHRASES[:12]] + ["elsif true {", "else {", "}"] + ACTION_PHRASES[:10]
    return dict(name="macro", prefix=REQ_ALL, sigma=sigma)


def scn_full():
    """every token class, every command identifier and every tag spelling of the table in one alphabet"""
    sigma = sorted(T.COMMANDS) + T.all_tags() + ["foo", ":foreign", "STR", "NUM", "10K", "ML", '"i;octet"', '"ge"'] + STRUCT
    return dict(name="full", prefix=REQ_ALL, sigma=sigma)


def all_commands():
    return sorted(T.COMMANDS)
