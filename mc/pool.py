"""Persistent worker pool: tasks are split by scenario; each worker imports the tree under test once."""
import importlib
import multiprocessing as mp
import os
import sys
import warnings

WORKERS = int(os.environ.get("VERIF_WORKERS", "16"))


def _init():
    warnings.filterwarnings("ignore")
    root = os.path.dirname(os.path.dirname(os.path.abspath(__file__)))
    if root not in sys.path:
        sys.path.insert(0, root)
    from . import seams

    seams.load()


def _call(arg):
    path, task = arg
    modname, fn = path.split(":")
    mod = importlib.import_module(modname)
    return getattr(mod, fn)(task)


def run_tasks(func_path, tasks, workers=None, chunksize=1, fresh_each=False, force_pool=False):
    """Run func(task) for every task; returns results in task order. func_path = 'module:function'."""
    tasks = list(tasks)
    workers = min(workers or WORKERS, max(1, len(tasks)))
    if (workers <= 1 and not force_pool and not fresh_each) or os.environ.get("VERIF_SERIAL"):
        _init()
        return [_call((func_path, t)) for t in tasks]
    ctx = mp.get_context("fork")
    kw = {"maxtasksperchild": 1} if fresh_each else {}
    with ctx.Pool(workers, initializer=_init, **kw) as pool:
        return pool.map(_call, [(func_path, t) for t in tasks], chunksize=chunksize)
