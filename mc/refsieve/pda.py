"""Incremental push-down recogniser + validator for RFC 5228 section 8.2 against the frozen table.

Reference model: written from the RFC grammar and DESIGN.md Appendix A, never imports sievelib.

    p = Pda()                  # or Pda(commands=custom_table)
    for i, tok in enumerate(tokens): p.feed(tok)        # stops caring once dead
    v = p.end()                # Verdict

Viable-prefix property: `dead` is set at the FIRST token after which no continuation is valid;
`dead = (reason, index, owner, detail, ctx)`.

Verdict.kind: 'VALID' | 'INVALID' | 'IRREGULAR'.  IRREGULAR = the classes the properties put outside
C01's claim: omitted trailing required arguments ('missing'), an optional tag slot filled twice
('repeat-tag'), an unknown extension name in require ('unknown-ext'), a multi-line string inside a
bracketed list ('ml-in-list', RFC-legal but outside sievelib's documented support), and control
characters in string contents flagged by the lexer ('str-ctl'). A string token that is not valid UTF-8
('str-utf8') makes the script INVALID (RFC 5228 8.1), without a position claim.
"""
from . import table as T


class Node:
    __slots__ = ("name", "role", "tags", "pos", "tests", "block", "index", "istestlist")

    def __init__(self, name, role, index):
        self.name = name
        self.role = role
        self.tags = []  # [tag_lower, param-or-None]
        self.pos = []
        self.tests = []
        self.block = None
        self.index = index
        self.istestlist = False

    def canon(self):
        return (
            self.name,
            tuple(sorted(((t, p) for t, p in self.tags), key=repr)),
            tuple(self.pos),
            tuple(t.canon() for t in self.tests),
            None if self.block is None else tuple(c.canon() for c in self.block),
        )


class Verdict:
    __slots__ = ("kind", "reason", "index", "owner", "detail", "ctx", "irregular", "tree", "uses", "requires",
                 "ntokens", "ext_missing")

    def __repr__(self):
        if self.kind == "INVALID":
            return "INVALID(%s@%s owner=%s detail=%s ctx=%s)" % (self.reason, self.index, self.owner, self.detail,
                                                                  self.ctx)
        if self.kind == "IRREGULAR":
            return "IRREGULAR(%s)" % ",".join(sorted(self.irregular))
        return "VALID"


WRONG_IN_ITSELF = ("LEX", "UNKNOWN_CMD", "EXT_CMD", "EXT_TAG", "BAD_TAG", "SURPLUS_ARG", "TEST_AS_CMD",
                   "NONTEST_AS_TEST")


def conforms(kind, spec):
    if spec == "s":
        return kind == "s"
    if spec == "sl":
        return kind in ("s", "sl")
    if spec == "n":
        return kind == "n"
    return False


class Pda:
    def __init__(self, commands=None, known_ext=None):
        self.cmds = commands if commands is not None else T.COMMANDS
        self.known_ext = known_ext if known_ext is not None else T.KNOWN_EXTENSIONS
        self.stack = [{"k": "block", "cmds": [], "top": True}]
        self.loaded = []
        self.irregular = set()
        self.dead = None
        self.n = 0
        self.uses = []  # (ext, token index, what)
        self.requires = []  # (names, index of ';')
        self.root = self.stack[0]["cmds"]

    # ------------------------------------------------------------------ helpers
    def _die(self, reason, owner=None, detail=None):
        if self.dead is None:
            self.dead = (reason, self.n, owner, detail, self.ctx())
        return False

    def ctx(self):
        for f in reversed(self.stack):
            if f["k"] == "slist":
                return "string-list"
            if f["k"] == "tlist":
                return "test-list"
            if f["k"] == "cmd":
                return "test" if f["ctx"] == "test" else "command"
            if f["k"] == "block":
                return "top" if f["top"] else "block"
        return "top"

    def _lookup(self, tok, want):
        """identifier -> (name, spec) or dies. want = 'cmd' | 'test'"""
        name = tok.text.decode("ascii").lower()
        spec = self.cmds.get(name)
        if spec is None:
            self._die("UNKNOWN_CMD", name, "id")
            return None
        if spec["ext"] and spec["ext"] not in self.loaded:
            self._die("EXT_CMD", name, spec["ext"])
            return None
        if want == "cmd" and spec["role"] == "test":
            self._die("TEST_AS_CMD", name, "id")
            return None
        if want == "test" and spec["role"] != "test":
            self._die("NONTEST_AS_TEST", name, "id")
            return None
        if spec["ext"]:
            self.uses.append((spec["ext"], self.n, name))
        return name, spec

    def _push_cmd(self, name, spec, ctx):
        node = Node(name, spec["role"], self.n)
        if spec["block"]:
            pass
        self.stack.append(
            {"k": "cmd", "node": node, "spec": spec, "ctx": ctx, "filled": set(), "pending": None, "npos": 0,
             "ntests": 0, "phase": "args", "inblock": False}
        )

    # ------------------------------------------------------------------ main
    def feed(self, tok):
        if self.dead is None:
            for fl in tok.flags:
                self.irregular.add(fl)
            self._dispatch(tok)
        self.n += 1

    def _dispatch(self, tok):
        f = self.stack[-1]
        k = f["k"]
        if k == "block":
            return self._in_block(f, tok)
        if k == "cmd":
            return self._in_cmd(f, tok)
        if k == "slist":
            return self._in_slist(f, tok)
        if k == "tlist":
            return self._in_tlist(f, tok)
        raise AssertionError(k)

    def _in_block(self, f, tok):
        kd = tok.kind
        if kd == "id":
            r = self._lookup(tok, "cmd")
            if r is None:
                return
            name, spec = r
            if spec["follows"]:
                prev = f["cmds"][-1].name if f["cmds"] else None
                if prev not in spec["follows"]:
                    return self._die("MUST_FOLLOW", name, prev)
            self._push_cmd(name, spec, "cmd")
            return
        if kd == "}":
            if f["top"]:
                return self._die("BRACKET", None, "}")
            self.stack.pop()
            cf = self.stack.pop()
            assert cf["k"] == "cmd" and cf["inblock"]
            cf["node"].block = f["cmds"]
            self._complete_command(cf)
            return
        return self._die("CMD_EXPECTED", None, kd)

    def _complete_command(self, cf):
        parent = self.stack[-1]
        assert parent["k"] == "block"
        parent["cmds"].append(cf["node"])

    def _value_kind(self, tok):
        if tok.kind in ("str", "ml"):
            return "s"
        if tok.kind == "num":
            return "n"
        return None

    def _accept_positional(self, f, kind, raw):
        """kind in 's','n','sl' (or ('tag', spelling)); returns True when consumed, else dies."""
        spec = f["spec"]
        pos = spec["pos"]
        node = f["node"]
        name = node.name
        npos = f["npos"]
        if spec["optfirst"]:
            if npos == 0:
                if not (conforms(kind, pos[0]) or conforms(kind, pos[1])):
                    return self._die("BAD_TYPE", name, kind)
            elif npos == 1:
                if not conforms(node.pos[0][0], pos[0]):
                    return self._die("BAD_TYPE", name, "first-of-two")
                if not conforms(kind, pos[1]):
                    return self._die("BAD_TYPE", name, kind)
            else:
                return self._die("SURPLUS_ARG", name, kind)
        else:
            if npos >= len(pos):
                return self._die("SURPLUS_ARG", name, kind)
            want = pos[npos]
            if isinstance(want, tuple):
                return self._die("BAD_TYPE", name, kind)
            if not conforms(kind, want):
                return self._die("BAD_TYPE", name, kind)
        node.pos.append((kind, raw))
        f["npos"] = npos + 1
        return True

    def _can_start_list(self, f):
        spec = f["spec"]
        pos = spec["pos"]
        npos = f["npos"]
        name = f["node"].name
        if spec["optfirst"]:
            if npos == 0:
                return True
            if npos == 1:
                if not conforms(f["node"].pos[0][0], pos[0]):
                    return self._die("BAD_TYPE", name, "first-of-two")
                return True
            return self._die("SURPLUS_ARG", name, "sl")
        if npos >= len(pos):
            return self._die("SURPLUS_ARG", name, "sl")
        if pos[npos] != "sl":
            return self._die("BAD_TYPE", name, "sl")
        return True

    def _finish_args(self, f):
        """A command/test ends here: completeness of its argument part."""
        spec = f["spec"]
        name = f["node"].name
        if f["pending"] is not None:
            self.irregular.add("missing")
        need = len(spec["pos"]) - (1 if spec["optfirst"] else 0)
        if f["npos"] < need:
            self.irregular.add("missing")
        if spec["tests"] == 1 and f["ntests"] == 0:
            return self._die("NO_TEST", name, None)
        if spec["tests"] == "list" and not f["node"].istestlist:
            return self._die("NO_TESTLIST", name, None)
        return True

    def _in_cmd(self, f, tok):
        kd = tok.kind
        spec = f["spec"]
        node = f["node"]
        name = node.name
        # --- argument tokens
        if kd in ("tag", "str", "ml", "num", "[", "id", "("):
            if f["phase"] == "post":
                if kd == "id":
                    # could still be an unknown identifier: that is "wrong in itself" first
                    r = self._lookup(tok, "test")
                    if r is None:
                        return
                    return self._die("SURPLUS_ARG", name, "test")
                return self._die("SURPLUS_ARG", name, self._value_kind(tok) or kd)
            if kd == "tag":
                if f["pending"] is not None:
                    return self._die("BAD_PARAM", name, "tag-for-" + f["pending"][2])
                t = tok.text.decode("ascii").lower()
                pos = spec["pos"]
                if f["npos"] < len(pos) and isinstance(pos[f["npos"]], tuple) and not spec["optfirst"]:
                    if t in pos[f["npos"]][1]:
                        node.tags.append([t, None])
                        f["npos"] += 1
                        return
                    return self._die("BAD_TAG", name, t)
                slot_i = None
                for i, s in enumerate(spec["slots"]):
                    if t in s:
                        slot_i = i
                        break
                if slot_i is None:
                    return self._die("BAD_TAG", name, t)
                if f["npos"] > 0:
                    return self._die("ORDER", name, t)
                ext, ptype, values = spec["slots"][slot_i][t]
                if ext and ext not in self.loaded:
                    return self._die("EXT_TAG", name, ext)
                if ext:
                    self.uses.append((ext, self.n, name + " " + t))
                if slot_i in f["filled"]:
                    self.irregular.add("repeat-tag")
                f["filled"].add(slot_i)
                node.tags.append([t, None])
                if ptype:
                    f["pending"] = (ptype, values, t)
                return
            if kd in ("str", "ml", "num"):
                vk = self._value_kind(tok)
                raw = tok.text.decode("utf-8", "replace")
                if f["pending"] is not None:
                    ptype, values, t = f["pending"]
                    if not conforms(vk, ptype):
                        return self._die("BAD_PARAM", name, "type-for-" + t)
                    if values is not None and raw not in values:
                        return self._die("BAD_PARAM", name, "value-for-" + t)
                    node.tags[-1][1] = (vk, raw)
                    f["pending"] = None
                    return
                return self._accept_positional(f, vk, raw)
            if kd == "[":
                if f["pending"] is not None:
                    ptype, values, t = f["pending"]
                    if ptype != "sl":
                        return self._die("BAD_PARAM", name, "type-for-" + t)
                else:
                    if not self._can_start_list(f):
                        return
                self.stack.append({"k": "slist", "items": [], "expect": "str", "start": self.n})
                return
            if kd == "id":
                if f["pending"] is not None:
                    # an identifier where a tag parameter is needed
                    r = self._lookup(tok, "test")
                    if r is None:
                        return
                    return self._die("BAD_PARAM", name, "test-for-" + f["pending"][2])
                r = self._lookup(tok, "test")
                if r is None:
                    return
                if spec["tests"] == 1 and f["ntests"] == 0:
                    self._push_cmd(r[0], r[1], "test")
                    return
                return self._die("SURPLUS_ARG", name, "test")
            if kd == "(":
                if f["pending"] is not None:
                    return self._die("BAD_PARAM", name, "testlist-for-" + f["pending"][2])
                if spec["tests"] == "list" and not node.istestlist:
                    node.istestlist = True
                    self.stack.append({"k": "tlist", "expect": "test", "count": 0})
                    return
                return self._die("SURPLUS_ARG", name, "testlist")
        # --- everything else ends the argument part
        if f["ctx"] == "test":
            if not self._finish_args(f):
                return
            self.stack.pop()
            parent = self.stack[-1]
            if parent["k"] == "tlist":
                parent["expect"] = "sep"
                parent["count"] += 1
                owner = self.stack[-2]
                owner["node"].tests.append(node)
            else:
                assert parent["k"] == "cmd"
                parent["node"].tests.append(node)
                parent["ntests"] += 1
                parent["phase"] = "post"
            return self._dispatch(tok)
        # command context
        if kd == ";":
            if not self._finish_args(f):
                return
            if spec["block"]:
                return self._die("NO_BLOCK", name, None)
            self.stack.pop()
            if name == "require":
                names = []
                for v in node.pos:
                    if v[0] == "sl":
                        names.extend(v[1])
                    else:
                        names.append(v[1])
                names = [x[1:-1] if x.startswith('"') else x for x in names]
                for x in names:
                    if x not in self.known_ext:
                        self.irregular.add("unknown-ext")
                    if x not in self.loaded:
                        self.loaded.append(x)
                self.requires.append((tuple(names), self.n))
            self._complete_command(f)
            return
        if kd == "{":
            if not spec["block"]:
                return self._die("BLOCK_AFTER_NONBLOCK", name, spec["role"])
            if not self._finish_args(f):
                return
            f["inblock"] = True
            self.stack.append({"k": "block", "cmds": [], "top": False})
            return
        return self._die("NO_SEMI", name, kd)

    def _in_slist(self, f, tok):
        kd = tok.kind
        if f["expect"] == "str":
            if kd == "str" or kd == "ml":
                if kd == "ml":
                    self.irregular.add("ml-in-list")
                f["items"].append(tok.text.decode("utf-8", "replace"))
                f["expect"] = "sep"
                return
            if kd == "]" and not f["items"]:
                return self._die("EMPTY_LIST", self._owner(), "]")
            return self._die("STRLIST", self._owner(), kd)
        if kd == ",":
            f["expect"] = "str"
            return
        if kd == "]":
            self.stack.pop()
            cf = self.stack[-1]
            items = tuple(f["items"])
            if cf["pending"] is not None:
                ptype, values, t = cf["pending"]
                if values is not None:
                    # a list given for a parameter restricted to a value set: a member outside the set is not allowed under any
                    # reading of the definition; whether a list of allowed members is, the definition format does not say
                    if any(it not in values for it in items):
                        return self._die("BAD_PARAM", cf["node"].name, "value-for-" + t)
                    self.irregular.add("list-for-value-set")
                cf["node"].tags[-1][1] = ("sl", items)
                cf["pending"] = None
                return
            self._accept_positional(cf, "sl", items)
            return
        return self._die("STRLIST", self._owner(), kd)

    def _owner(self):
        for f in reversed(self.stack):
            if f["k"] == "cmd":
                return f["node"].name
        return None

    def _in_tlist(self, f, tok):
        kd = tok.kind
        if f["expect"] == "test":
            if kd == "id":
                r = self._lookup(tok, "test")
                if r is None:
                    return
                self._push_cmd(r[0], r[1], "test")
                return
            if kd == ")" and f["count"] == 0:
                return self._die("EMPTY_LIST", self._owner(), ")")
            return self._die("TESTLIST", self._owner(), kd)
        if kd == ",":
            f["expect"] = "test"
            return
        if kd == ")":
            self.stack.pop()
            self.stack[-1]["phase"] = "post"
            return
        return self._die("TESTLIST", self._owner(), kd)

    # ------------------------------------------------------------------ end of input
    def live(self):
        return self.dead is None

    def end(self, lex_error=None):
        v = Verdict()
        v.ntokens = self.n
        v.irregular = set(self.irregular)
        v.uses = list(self.uses)
        v.requires = list(self.requires)
        v.tree = None
        v.reason = v.index = v.owner = v.detail = v.ctx = None
        dead = self.dead
        if dead is None and lex_error is not None:
            dead = ("LEX", self.n, self._owner(), lex_error[3], self.ctx())
        if dead is None and len(self.stack) > 1:
            top = self.stack[-1]
            kinds = {"cmd": "EOF_IN_COMMAND", "slist": "EOF_IN_STRLIST", "tlist": "EOF_IN_TESTLIST",
                     "block": "EOF_IN_BLOCK"}
            dead = (kinds[top["k"]], self.n, self._owner(), None, self.ctx())
        lexirr = v.irregular & {"str-ctl", "str-utf8"}
        if "str-utf8" in lexirr:
            # "Sieve scripts are encoded in UTF-8. The following assumes a valid UTF-8 encoding" (RFC 5228 8.1): a string token whose
            # octets are not UTF-8 is no token of the language (and cannot become the str the tree holds). The flag stays in
            # v.irregular, so no position claim (C18) is attached to it.
            v.kind = "INVALID"
            v.reason, v.index, v.owner, v.detail, v.ctx = dead if dead is not None else ("STR_UTF8", self.n, self._owner(), None, self.ctx())
            return v
        if lexirr:
            v.kind = "IRREGULAR"
            return v
        if dead is not None:
            v.kind = "INVALID"
            v.reason, v.index, v.owner, v.detail, v.ctx = dead
            return v
        v.tree = tuple(n.canon() for n in self.root)
        v.kind = "IRREGULAR" if v.irregular else "VALID"
        return v

    # ------------------------------------------------------------------ configuration key
    def key(self):
        if self.dead is not None:
            return ("dead",)
        out = []
        for f in self.stack:
            k = f["k"]
            if k == "block":
                out.append(("b", f["cmds"][-1].name if f["cmds"] else None))
            elif k == "cmd":
                n = f["node"]
                out.append(("c", n.name, f["ctx"], tuple(sorted(f["filled"])), f["pending"][2] if f["pending"] else None,
                            f["npos"], tuple(p[0] for p in n.pos), f["ntests"], f["phase"], n.istestlist))
            elif k == "slist":
                out.append(("s", f["expect"], bool(f["items"])))
            else:
                out.append(("t", f["expect"], f["count"] > 0))
        return (tuple(out), tuple(sorted(self.loaded)), tuple(sorted(self.irregular)))


def judge(data, commands=None, known_ext=None):
    """Reference verdict for a complete script given as bytes."""
    from . import lexer

    toks, lerr, _c = lexer.tokens(data)
    p = Pda(commands, known_ext)
    for t in toks:
        p.feed(t)
    v = p.end(lerr)
    return v, toks, lerr
