"""Reference Sieve model (RFC 5228 + frozen table); never imports sievelib."""
from .pda import Pda, judge, Verdict, WRONG_IN_ITSELF  # noqa
from . import lexer, table  # noqa
