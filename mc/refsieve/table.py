"""Frozen table of the Sieve language sievelib supports at the pinned commit (DESIGN.md Appendix A).

Hand-transcribed from RFC 5228/3894/5173/5230/6131/5231/5232/5260/5229; data only. It is NOT read
from sievelib.commands, so an edit there that changes the language shows up as a discrepancy.

Per command:
  role      'control' | 'action' | 'test'
  ext       extension that must have been required, or None
  slots     list of tag slots; slot = {tag: (ext or None, ptype or None, values or None)}
            ptype: 's' string, 'n' number, 'sl' string or list
  pos       positional argument types in order: 's', 'sl', 'n', or ('tag', {spellings})
  optfirst  True when the first positional is optional (imap4flags variable name/list)
  tests     0 | 1 (exactly one test) | 'list' (parenthesised test list)
  block     True when the command takes a block, else it ends with ';' (tests: neither)
  follows   names the previous sibling must have, or None
"""

COMPARATOR = {":comparator": (None, "s", ('"i;octet"', '"i;ascii-casemap"'))}
ADDRESS_PART = {":localpart": (None, None, None), ":domain": (None, None, None), ":all": (None, None, None)}
RELOPS = ('"gt"', '"ge"', '"lt"', '"le"', '"eq"', '"ne"')
MATCH_TYPE = {
    ":is": (None, None, None),
    ":contains": (None, None, None),
    ":matches": (None, None, None),
    ":regex": ("regex", None, None),
    ":count": ("relational", "s", RELOPS),
    ":value": ("relational", "s", RELOPS),
}


def _c(role, ext=None, slots=(), pos=(), optfirst=False, tests=0, block=False, follows=None):
    return dict(role=role, ext=ext, slots=list(slots), pos=list(pos), optfirst=optfirst, tests=tests,
                block=block, follows=follows)


FLAGS_SLOT = {":flags": ("imap4flags", "sl", None)}

COMMANDS = {
    "require": _c("control", pos=["sl"]),
    "if": _c("control", tests=1, block=True),
    "elsif": _c("control", tests=1, block=True, follows=("if", "elsif")),
    "else": _c("control", block=True, follows=("if", "elsif")),
    "set": _c("control", ext="variables", pos=["s", "s"]),
    "stop": _c("action"),
    "discard": _c("action"),
    "keep": _c("action", slots=[FLAGS_SLOT]),
    "fileinto": _c(
        "action",
        ext="fileinto",
        slots=[{":copy": ("copy", None, None)}, {":create": ("mailbox", None, None)}, FLAGS_SLOT],
        pos=["s"],
    ),
    "redirect": _c("action", slots=[{":copy": ("copy", None, None)}], pos=["s"]),
    "reject": _c("action", ext="reject", pos=["s"]),
    "setflag": _c("action", ext="imap4flags", pos=["s", "sl"], optfirst=True),
    "addflag": _c("action", ext="imap4flags", pos=["s", "sl"], optfirst=True),
    "removeflag": _c("action", ext="imap4flags", pos=["s", "sl"], optfirst=True),
    "vacation": _c(
        "action",
        ext="vacation",
        slots=[
            {":subject": (None, "s", None)},
            {":days": (None, "n", None)},
            {":seconds": ("vacation-seconds", "n", None)},
            {":from": (None, "s", None)},
            {":addresses": (None, "sl", None)},
            {":handle": (None, "s", None)},
            {":mime": (None, None, None)},
        ],
        pos=["s"],
    ),
    "true": _c("test"),
    "false": _c("test"),
    "not": _c("test", tests=1),
    "anyof": _c("test", tests="list"),
    "allof": _c("test", tests="list"),
    "address": _c("test", slots=[COMPARATOR, ADDRESS_PART, MATCH_TYPE], pos=["sl", "sl"]),
    "envelope": _c("test", ext="envelope", slots=[COMPARATOR, ADDRESS_PART, MATCH_TYPE], pos=["sl", "sl"]),
    "header": _c("test", slots=[COMPARATOR, MATCH_TYPE], pos=["sl", "sl"]),
    "exists": _c("test", pos=["sl"]),
    "size": _c("test", pos=[("tag", (":over", ":under")), "n"]),
    "body": _c(
        "test",
        ext="body",
        slots=[
            COMPARATOR,
            MATCH_TYPE,
            {":raw": (None, None, None), ":text": (None, None, None), ":content": (None, "sl", None)},
        ],
        pos=["sl"],
    ),
    "hasflag": _c("test", ext="imap4flags", slots=[COMPARATOR, MATCH_TYPE], pos=["sl", "sl"], optfirst=True),
    "date": _c(
        "test",
        ext="date",
        slots=[{":zone": (None, "s", None), ":originalzone": (None, None, None)}, COMPARATOR, MATCH_TYPE],
        pos=["s", "s", "sl"],
    ),
    "currentdate": _c(
        "test", ext="date", slots=[{":zone": (None, "s", None)}, COMPARATOR, MATCH_TYPE], pos=["s", "sl"]
    ),
}

KNOWN_EXTENSIONS = (
    "fileinto",
    "reject",
    "envelope",
    "body",
    "vacation",
    "vacation-seconds",
    "relational",
    "regex",
    "imap4flags",
    "copy",
    "mailbox",
    "date",
    "variables",
)


def all_tags():
    out = set()
    for c in COMMANDS.values():
        for s in c["slots"]:
            out.update(s)
        for p in c["pos"]:
            if isinstance(p, tuple):
                out.update(p[1])
    return sorted(out)


def extension_constructs():
    """(kind, command, tag) triples bound to an extension: the constructs C07 is about."""
    out = []
    for name, c in sorted(COMMANDS.items()):
        if c["ext"]:
            out.append(("command", name, None, c["ext"]))
        for s in c["slots"]:
            for t, (ext, _p, _v) in sorted(s.items()):
                if ext:
                    out.append(("tag", name, t, ext))
    return out
