"""Strict RFC 5228 section 8.1 lexer over bytes (reference model; never imports sievelib).

tokens(data) -> (list of Tok, error)   error = None | (offset, line, col, why)

Tok: kind in {'id','tag','num','str','ml', '[',']','(',')','{','}',';',','}, text (bytes),
     offset, line (1-based), col (1-based byte column), flags (set of irregularities)

Irregular-but-tolerated spellings (flag on the token, verdict becomes "no claim"):
  'str-ctl'   quoted string containing NUL, a bare CR, or a backslash before CR/LF/NUL (a bare LF is
              accepted like CRLF: LF-only scripts are what every implementation and the suite use)
  'str-utf8'  string / multi-line content that is not valid UTF-8
  'ml-lf'     nothing (LF-only line ends are accepted silently, as every implementation does)
Comments and white space are skipped; `comments` collects (offset, bytes) of hash comments.
"""

ALPHA = set(b"abcdefghijklmnopqrstuvwxyzABCDEFGHIJKLMNOPQRSTUVWXYZ_")
DIGIT = set(b"0123456789")
ALNUM = ALPHA | DIGIT
WS = set(b" \t\r\n")
PUNCT = {ord(c): c for c in "[](){};,"}


class Tok:
    __slots__ = ("kind", "text", "offset", "line", "col", "flags")

    def __init__(self, kind, text, offset, line, col, flags=()):
        self.kind = kind
        self.text = text
        self.offset = offset
        self.line = line
        self.col = col
        self.flags = set(flags)

    def __repr__(self):
        return "Tok(%s,%r@%d:%d)" % (self.kind, self.text, self.line, self.col)


def _is_utf8(b):
    try:
        b.decode("utf-8")
        return True
    except UnicodeDecodeError:
        return False


def tokens(data, strict_ws=False):
    toks = []
    comments = []
    n = len(data)
    i = 0

    def linecol(off):
        line = data.count(b"\n", 0, off) + 1
        col = off - data.rfind(b"\n", 0, off)
        return line, col

    def err(off, why):
        line, col = linecol(off)
        return toks, (off, line, col, why), comments

    while i < n:
        c = data[i]
        if c in WS:
            i += 1
            continue
        if c == 0x23:  # '#'
            j = data.find(b"\n", i)
            if j < 0:
                j = n
            comments.append((i, data[i:j]))
            i = j
            continue
        if c == 0x2F and data[i : i + 2] == b"/*":
            j = data.find(b"*/", i + 2)
            if j < 0:
                return err(i, "unterminated bracket comment")
            i = j + 2
            continue
        line, col = linecol(i)
        if c in PUNCT:
            toks.append(Tok(PUNCT[c], data[i : i + 1], i, line, col))
            i += 1
            continue
        if c == 0x22:  # '"'
            j = i + 1
            flags = set()
            while True:
                if j >= n:
                    return err(i, "unterminated string")
                d = data[j]
                if d == 0x22:
                    break
                if d == 0x5C:
                    if j + 1 >= n:
                        return err(i, "unterminated string")
                    if data[j + 1] in (0x0A, 0x0D, 0x00):
                        flags.add("str-ctl")
                    j += 2
                    continue
                if d == 0x00:
                    flags.add("str-ctl")
                elif d == 0x0D:
                    if data[j + 1 : j + 2] != b"\n":
                        flags.add("str-ctl")
                j += 1
            text = data[i : j + 1]
            if not _is_utf8(text):
                flags.add("str-utf8")
            toks.append(Tok("str", text, i, line, col, flags))
            i = j + 1
            continue
        if c == 0x3A:  # ':'
            j = i + 1
            if j < n and data[j] in ALPHA:
                while j < n and data[j] in ALNUM:
                    j += 1
                toks.append(Tok("tag", data[i:j], i, line, col))
                i = j
                continue
            return err(i, "stray colon")
        if c in DIGIT:
            j = i
            while j < n and data[j] in DIGIT:
                j += 1
            if j < n and data[j] in b"KMGkmg":
                j += 1
            toks.append(Tok("num", data[i:j], i, line, col))
            i = j
            continue
        if c in ALPHA:
            j = i
            while j < n and data[j] in ALNUM:
                j += 1
            word = data[i:j]
            if word.lower() == b"text" and data[j : j + 1] == b":":
                # multi-line literal: "text:" *(SP/HTAB) (hash-comment / CRLF) ... "." CRLF
                k = j + 1
                while k < n and data[k] in b" \t":
                    k += 1
                flags = set()
                if k < n and data[k] == 0x23:
                    e = data.find(b"\n", k)
                    if e < 0:
                        return err(i, "unterminated multi-line string")
                    k = e + 1
                elif data[k : k + 2] == b"\r\n":
                    k += 2
                elif data[k : k + 1] == b"\n":
                    k += 1
                else:
                    return err(i, "junk after text:")
                # lines until a line consisting of "." only
                while True:
                    if k >= n:
                        return err(i, "unterminated multi-line string")
                    e = data.find(b"\n", k)
                    if e < 0:
                        # last line without newline: a lone "." at end of input is tolerated
                        ln = data[k:]
                        if ln == b".":
                            end = n
                            break
                        return err(i, "unterminated multi-line string")
                    ln = data[k:e]
                    if ln.endswith(b"\r"):
                        ln = ln[:-1]
                    if ln == b".":
                        end = k + 1  # token ends right after the dot
                        break
                    k = e + 1
                text = data[i:end]
                if not _is_utf8(text):
                    flags.add("str-utf8")
                if b"\x00" in text:
                    flags.add("str-ctl")
                toks.append(Tok("ml", text, i, line, col, flags))
                i = end
                continue
            toks.append(Tok("id", word, i, line, col))
            i = j
            continue
        return err(i, "no token starts with byte 0x%02x" % c)
    return toks, None, comments
