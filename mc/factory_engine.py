"""Filter-factory explorers: reference list model (RefFilters), definition pools, helpers.

The reference model never imports sievelib; the driver replays histories on a fresh real FiltersSet
(state = shortest history reaching it) and on the model, comparing after every event."""
import io

from . import seams
from .refsieve import lexer as rlexer
from .refsieve.pda import Pda


# ---------------------------------------------------------------------------------------------
# reference model (DESIGN.md Appendix C)


class AlreadyExists(Exception):
    pass


class RefFilters:
    def __init__(self):
        self.items = []  # [name, def_id, enabled, description]

    def _find(self, name):
        for i, it in enumerate(self.items):
            if it[0] == name:
                return i
        return None

    @staticmethod
    def _n(name):
        return name.decode("utf-8") if isinstance(name, bytes) else name

    def add(self, name, d):
        name = self._n(name)
        if self._find(name) is not None:
            raise AlreadyExists()
        self.items.append([name, d, True, None])
        return None

    def update(self, old, new, d, desc=None, keep_desc=True):
        old, new = self._n(old), self._n(new)
        i = self._find(old)
        if i is None:
            return False
        if new != old and self._find(new) is not None:
            raise AlreadyExists()
        it = self.items[i]
        it[0] = new
        it[1] = d
        if desc is not None:
            it[3] = desc
        return True

    def remove(self, name):
        i = self._find(self._n(name))
        if i is None:
            return False
        del self.items[i]
        return True

    def disable(self, name):
        i = self._find(self._n(name))
        if i is None:
            return False
        was = self.items[i][2]
        self.items[i][2] = False
        return True if was else "unspecified"

    def enable(self, name):
        i = self._find(self._n(name))
        if i is None:
            return False
        was = self.items[i][2]
        self.items[i][2] = True
        return "unspecified" if was else True

    def move(self, name, direction):
        i = self._find(self._n(name))
        if i is None:
            return False
        j = i - 1 if direction == "up" else i + 1
        if j < 0 or j >= len(self.items):
            return False
        self.items[i], self.items[j] = self.items[j], self.items[i]
        return True

    def state(self):
        return tuple((n, d, e, desc) for n, d, e, desc in self.items)


# ---------------------------------------------------------------------------------------------
# helpers on the implementation side


def render(fs):
    buf = io.StringIO()
    fs.tosieve(buf)
    return buf.getvalue()


def render_cmd(cmd):
    buf = io.StringIO()
    cmd.tosieve(target=buf)
    return buf.getvalue()


def ref_parse(text):
    """reference verdict + generic tree for a rendered script"""
    data = text.encode("utf-8")
    toks, lerr, comments = rlexer.tokens(data)
    p = Pda()
    for t in toks:
        p.feed(t)
    return p.end(lerr), toks, comments


def decode_string(raw):
    """decode a quoted-string or multi-line literal spelling to its value"""
    if raw.startswith('"'):
        body = raw[1:-1]
        out = []
        i = 0
        while i < len(body):
            c = body[i]
            if c == "\\" and i + 1 < len(body):
                out.append(body[i + 1])
                i += 2
            else:
                out.append(c)
                i += 1
        return "".join(out)
    if raw.startswith("text:"):
        nl = raw.index("\n")
        lines = raw[nl + 1:].split("\n")
        if lines and lines[-1].rstrip("\r") == ".":
            lines = lines[:-1]
        lines = [(l[1:] if l.startswith(".") else l) for l in lines]
        return "\n".join(lines)
    return raw


def tree_shape(tree):
    """(shape with strings replaced by holes, list of string spellings in order)"""
    strings = []

    def val(v):
        if v is None:
            return None
        if v[0] == "s":
            strings.append(v[1])
            return ("s", "#")
        if v[0] == "sl":
            for i in v[1]:
                strings.append(i)
            return ("sl", len(v[1]))
        return v

    def node(n):
        return (n[0], tuple((t, val(p)) for t, p in n[1]), tuple(val(v) for v in n[2]), tuple(node(t) for t in n[3]),
                None if n[4] is None else tuple(node(c) for c in n[4]))

    shape = tuple(node(n) for n in tree)
    return shape, strings


def is_wrapper(node):
    """`if false { <one command> }` in a canonical/generic tree"""
    return (node[0] == "if" and len(node[3]) == 1 and node[3][0][0] == "false" and node[4] is not None and len(node[4]) == 1)


def wrapper_depth(node):
    d = 0
    while is_wrapper(node):
        d += 1
        node = node[4][0]
    return d, node


# ---------------------------------------------------------------------------------------------
# definition pools

D1 = ([("Subject", ":is", "hello")], [("fileinto", "Inbox.a")], "anyof")
D2 = ([("size", ":over", "100k"), ("exists", "X-Spam")], [("redirect", ":copy", "x@example.org"), ("stop",)], "allof")
D3 = ([("envelope", ":is", ["From"], ["a@b"])], [("fileinto", ":create", "New"), ("keep",)], "anyof")
D4 = ([("body", ":raw", ":contains", "matteo")], [("reject", "no thanks")], "anyof")
D5 = ([("currentdate", ":zone", "+0100", ":value", "ge", "date", "2019-02-26")], [("vacation", ":days", 7, ":subject", "Away", "Gone")], "anyof")
D6 = ([("Sender", ":notcontains", "spam")], [("setflag", "\\Seen"), ("discard",)], "anyof")
D7 = ([("Subject", ":contains", "core only")], [("keep",), ("stop",)], "anyof")  # needs no extension: its set renders without a require line
D8 = ([("Subject", ":is", "flag me")], [("keep", ":flags", "\\Seen")], "anyof")  # imap4flags needed through a tag only
D9 = ([("X-List", ":matches", "*")], [("fileinto", ":flags", ["\\Seen", "\\Flagged"], ":copy", "Lists"), ("stop",)], "allof")
D10 = ([("false",)], [("fileinto", "Never"), ("stop",)], "anyof")  # a filter whose own single test is the constant the disabled wrapper uses
D11 = ([("true",)], [("keep",)], "allof")
D12 = ([("Subject", ":is", "dup"), ("exists", "X-B"), ("Subject", ":is", "dup")], [("keep",)], "anyof")  # last condition equals the first
D13 = ([("Subject", ":contains", "away")], [("vacation", ":seconds", 90, ":subject", "Out", "gone")], "anyof")
D14 = ([("Subject", ":contains", "zero")], [("vacation", ":days", 0, "reason")], "anyof")
D15 = ([("Subject", ":contains", "a\r\nb")], [("vacation", ":subject", "Out", "line one\r\nline two\rthree\n")], "anyof")  # CR, CRLF and LF inside values
DEFS = {"d15": D15, "d14": D14, "d13": D13, "d1": D1, "d2": D2, "d3": D3, "d4": D4, "d5": D5, "d6": D6, "d7": D7, "d8": D8, "d9": D9, "d10": D10, "d11": D11, "d12": D12}


def new_set(ns, name="t", **kw):
    return ns.factory.FiltersSet(name, **kw)


def build_alone(ns, d):
    """rendering of a definition built alone (reference rendering of a filter's own content)"""
    fs = new_set(ns)
    conds, acts, mt = DEFS[d]
    fs.addfilter("x", list(conds), list(acts), mt)
    return render_cmd(fs.filters[0]["content"])
