"""Wire explorers: scripted reply server for E3 products, deviation-bounded DFS (E2) over Choices."""
import itertools

from . import refms, wire

CRLF = b"\r\n"


class ScriptedServer(refms.RefServer):
    """After authentication, answers the next commands with pre-scripted reply bytes (the reply corpus
    of C05/C09/C17), then falls back to the reference semantics (sentinels)."""

    def __init__(self, *a, **k):
        refms.RefServer.__init__(self, *a, **k)
        self.script = []
        self.close_after_bye = False

    def handle(self, verb, args):
        if self.script:
            r = self.script.pop(0)
            self.emit(r)
            if self.close_after_bye and r.rsplit(CRLF, 2)[-2].startswith(b"BYE") if r.endswith(CRLF) else False:
                self.closed = True
            return
        return refms.RefServer.handle(self, verb, args)


# ---------------------------------------------------------------------------------------------
# reply grammar (bounded exhaustive)

RCODES = [None, b"QUOTA", b"QUOTA/MAXSIZE", b'TAG "x"', b"WARNINGS", b'TAG "{7}"', b"NONEXISTENT", b"ACTIVE", b'TAG "say \\"hi"', b'TAG "a)b"']
TEXTS = [None, ("q", b"x y"), ("q", b'a"b\\c'), ("q", b""), ("l", b"lit text"), ("l", b"two\r\nlines"), ("q", b"\xc3\xa9t\xc3\xa9"),
         ("q", b"variable ${1} used, {2} of 5"), ("l", b"{3}"),
         ("l", b"ends in a line break\r\n"), ("l", b" padded \t"), ("q", b" lead and trail ")]  # text is data: nothing may be trimmed from it


def status_variants(codes=(b"OK", b"NO", b"BYE"), rcodes=RCODES, texts=TEXTS):
    """(label, bytes, code, rcode, text) for every status reply shape"""
    out = []
    for code in codes:
        for rc in rcodes:
            for tx in texts:
                line = code
                if rc is not None:
                    line += b" (" + rc + b")"
                if tx is not None:
                    kind, val = tx
                    line += b" " + (refms.enc_literal(val) if kind == "l" else refms.enc_quoted(val))
                label = "%s/%s/%s" % (code.decode(), "none" if rc is None else ("slash" if b"/" in rc else ("param" if b" " in rc else "atom")),
                                      "none" if tx is None else ("literal" if tx[0] == "l" else ("escaped" if b"\\" in refms.enc_quoted(tx[1])[1:-1] else "quoted")))
                out.append((label, line + CRLF, code, rc, None if tx is None else tx[1]))
    return out


LOOKALIKE_LINES = [b"keep;", b"OK", b'NO "x"', b"BYE", b"{5}", b'"x" ACTIVE', b"", b"\xc3\xa9", b'OK "Done."', b"{3+}",
                   b"a\xe2\x80\xa8b", b"a\xc2\x85b", b"a\x0bb\x0cc\x1cd",
                   b"\xef\xbb\xbfkeep;", b"keep; \t", b" ", b"# see c:\\"]  # ... and lines ending in / made of blanks  # U+2028, U+0085, VT/FF/FS: not line ends for the protocol


def bodies(max_lines, lines=LOOKALIKE_LINES, eols=(b"\r\n", b"\n"), finals=(True, False)):
    out = []
    for n in range(0, max_lines + 1):
        for tup in itertools.product(lines, repeat=n):
            for eol in eols:
                for fin in finals:
                    if n == 0 and (eol != eols[0] or not fin):
                        continue
                    b = eol.join(tup)
                    if fin and n:
                        b += eol
                    out.append(b)
    # dedupe preserving order
    seen = set()
    res = []
    for b in out:
        if b not in seen:
            seen.add(b)
            res.append(b)
    return res


def getscript_reply(body, literal=True, status=b'OK "Getscript completed."\r\n'):
    if literal or not refms.can_quote(body):
        return refms.enc_literal(body) + CRLF + status
    return refms.enc_quoted(body) + CRLF + status


def listing_reply(names, active, encs, status=b'OK "Listscripts completed."\r\n'):
    out = b""
    for n, e in zip(names, encs):
        b = n.encode("utf-8")
        out += (refms.enc_literal(b) if (e == "l" or not refms.can_quote(b)) else refms.enc_quoted(b))
        if n == active:
            out += b" ACTIVE"
        out += CRLF
    return out + status


# ---------------------------------------------------------------------------------------------
# segmentations


def all_cuts(length, k):
    """every set of k cut offsets in 1..length-1"""
    return itertools.combinations(range(1, length), k)


# ---------------------------------------------------------------------------------------------
# E2: deviation-bounded DFS over a Choices-driven run


def explore(run, bound, check, max_runs=None):
    """run(prefix) -> (Choices trace [(name,n,chosen)], observation). check(observation, choices) is called
    for every complete execution. Branches on every choice point after the prefix whose deviation count stays
    within `bound` (a non-default alternative = 1 deviation). Returns (#executions, capped?)."""
    stack = [([], 0)]
    runs = 0
    while stack:
        prefix, dev = stack.pop()
        trace, obs = run(prefix)
        runs += 1
        chosen = [c for _n, _k, c in trace]
        if chosen[:len(prefix)] != list(prefix):
            raise AssertionError("replay diverged: %r vs %r" % (chosen[:len(prefix)], prefix))
        check(obs, trace)
        if max_runs and runs >= max_runs:
            return runs, True
        if dev >= bound:
            continue
        for i in range(len(prefix), len(trace)):
            name, n, _c = trace[i]
            for alt in range(1, n):
                stack.append((chosen[:i] + [alt], dev + 1))
    return runs, False
