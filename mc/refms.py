"""Reference ManageSieve (RFC 5804) model: strict command parser, reply encoder, server, virtual socket.

Never imports sievelib. Every decision the RFC leaves to the server is a *choice point* served by a
`Choices` object (default = alternative 0), which is what the deviation-bounded explorer branches on.
"""
import base64
import socket as _socket

CRLF = b"\r\n"


class Livelock(BaseException):
    """The client keeps calling recv() without making progress (busy loop on EOF)."""


# ---------------------------------------------------------------------------------------------
# choices


class Choices:
    """Replays a prefix of choices, then takes the default (0). Records every point visited."""

    def __init__(self, prefix=()):
        self.prefix = list(prefix)
        self.trace = []  # (name, n_options, chosen)

    def choose(self, name, n):
        i = len(self.trace)
        if i < len(self.prefix):
            c = self.prefix[i]
            if c >= n:
                raise AssertionError("replay diverged at point %d (%s): choice %d of %d" % (i, name, c, n))
        else:
            c = 0
        self.trace.append((name, n, c))
        return c

    def chosen(self):
        return [c for _n, _k, c in self.trace]


class FixedChoices(Choices):
    """choices given by name (dict name -> index), for E3 products"""

    def __init__(self, byname=None):
        Choices.__init__(self)
        self.byname = dict(byname or {})

    def choose(self, name, n):
        c = self.byname.get(name, 0)
        if callable(c):
            c = c(len([t for t in self.trace if t[0] == name]))
        if c >= n:
            c = 0
        self.trace.append((name, n, c))
        return c


# ---------------------------------------------------------------------------------------------
# strict client-command parser


class CmdError(Exception):
    pass


VERBS = {
    "AUTHENTICATE": (1, 2), "STARTTLS": (0, 0), "LOGOUT": (0, 0), "CAPABILITY": (0, 0), "HAVESPACE": (2, 2),
    "PUTSCRIPT": (2, 2), "LISTSCRIPTS": (0, 0), "SETACTIVE": (1, 1), "GETSCRIPT": (1, 1), "DELETESCRIPT": (1, 1),
    "RENAMESCRIPT": (2, 2), "CHECKSCRIPT": (1, 1), "NOOP": (0, 1), "UNAUTHENTICATE": (0, 0),
}
SCRIPT_VERBS = ("HAVESPACE", "LISTSCRIPTS", "GETSCRIPT", "PUTSCRIPT", "CHECKSCRIPT", "DELETESCRIPT", "RENAMESCRIPT",
                "SETACTIVE")


def parse_string(buf, pos):
    """-> (kind, value bytes, newpos) | None (need more) ; raises CmdError"""
    if pos >= len(buf):
        return None
    c = buf[pos:pos + 1]
    if c == b'"':
        j = pos + 1
        out = bytearray()
        while True:
            if j >= len(buf):
                return None
            d = buf[j]
            if d == 0x22:
                break
            if d == 0x5C:
                if j + 1 >= len(buf):
                    return None
                e = buf[j + 1]
                if e not in (0x22, 0x5C):
                    raise CmdError("bad escape \\%r in quoted string" % chr(e))
                out.append(e)
                j += 2
                continue
            if d in (0x00, 0x0A, 0x0D):
                raise CmdError("control byte 0x%02x inside quoted string" % d)
            out.append(d)
            j += 1
        if len(out) > 1024:
            raise CmdError("quoted string longer than 1024 octets")
        try:
            bytes(out).decode("utf-8")
        except UnicodeDecodeError:
            raise CmdError("quoted string is not UTF-8")
        return ("quoted", bytes(out), j + 1)
    if c == b"{":
        j = pos + 1
        k = j
        while k < len(buf) and 0x30 <= buf[k] <= 0x39:
            k += 1
        if k >= len(buf):
            return None
        if k == j:
            raise CmdError("literal without length")
        n = int(buf[j:k])
        rest = buf[k:k + 4]
        if len(rest) < 4 and b"+}\r\n".startswith(rest):
            return None
        if rest != b"+}\r\n":
            raise CmdError("client literal must be non-synchronising {n+} CRLF, got %r" % buf[pos:k + 4])
        start = k + 4
        if len(buf) < start + n:
            return None
        return ("literal", buf[start:start + n], start + n)
    raise CmdError("string expected at %r" % buf[pos:pos + 12])


def parse_command(buf):
    """strict: -> None (incomplete) | (verb, [(kind, value)], consumed); raises CmdError"""
    pos = 0
    n = len(buf)
    while pos < n and (0x41 <= buf[pos] <= 0x5A or 0x61 <= buf[pos] <= 0x7A):
        pos += 1
    if pos == 0:
        if n == 0:
            return None
        raise CmdError("command verb expected at %r" % buf[:12])
    verb = buf[:pos].decode("ascii").upper()
    args = []
    while True:
        if pos >= n:
            return None
        if buf[pos:pos + 2] == CRLF:
            pos += 2
            break
        if buf[pos:pos + 1] == b"\r" and pos + 1 >= n:
            return None
        if buf[pos:pos + 1] != b" ":
            raise CmdError("SP or CRLF expected after %r, got %r" % (buf[:pos][-12:], buf[pos:pos + 6]))
        pos += 1
        if pos >= n:
            return None
        c = buf[pos]
        if 0x30 <= c <= 0x39:
            k = pos
            while k < n and 0x30 <= buf[k] <= 0x39:
                k += 1
            if k >= n:
                return None
            val = int(buf[pos:k])
            if val >= 2 ** 32:
                raise CmdError("number out of range")
            args.append(("number", buf[pos:k]))
            pos = k
            continue
        r = parse_string(buf, pos)
        if r is None:
            return None
        args.append((r[0], r[1]))
        pos = r[2]
    if verb not in VERBS:
        raise CmdError("unknown verb %s" % verb)
    lo, hi = VERBS[verb]
    if not (lo <= len(args) <= hi):
        raise CmdError("%s takes %d..%d arguments, got %d" % (verb, lo, hi, len(args)))
    return verb, args, pos


def parse_all(buf):
    """every command in buf: -> (commands, leftover bytes, error or None)"""
    cmds = []
    while buf:
        try:
            r = parse_command(buf)
        except CmdError as e:
            return cmds, buf, str(e)
        if r is None:
            return cmds, buf, "incomplete command %r" % buf[:40]
        cmds.append((r[0], r[1]))
        buf = buf[r[2]:]
    return cmds, b"", None


# ---------------------------------------------------------------------------------------------
# reply encoder


def enc_quoted(b):
    return b'"' + b.replace(b"\\", b"\\\\").replace(b'"', b'\\"') + b'"'


def enc_literal(b):
    return b"{%d}\r\n" % len(b) + b


def can_quote(b):
    return not any(c in b for c in (b"\r", b"\n", b"\x00")) and len(b) <= 1024


def enc_string(b, ch, point):
    """quoted (default) or literal; values that cannot be quoted are always literals"""
    if not can_quote(b):
        return enc_literal(b)
    if ch.choose(point, 2) == 1:
        return enc_literal(b)
    return enc_quoted(b)


def status(code, rcode=None, text=None, literal=False):
    out = code
    if rcode is not None:
        out += b" (" + rcode + b")"
    if text is not None:
        out += b" " + (enc_literal(text) if (literal or not can_quote(text)) else enc_quoted(text))
    return out + CRLF


# ---------------------------------------------------------------------------------------------
# server model

DEFAULT_CAPS = [
    (b"IMPLEMENTATION", b"RefMS 1.0"),
    (b"SASL", b"PLAIN"),
    (b"SIEVE", b"fileinto vacation"),
]


class RefServer:
    """Executable RFC 5804 server. `store`: ordered dict name(str)->bytes; `active`: name or None."""

    def __init__(self, ch=None, store=None, active=None, caps_plain=None, caps_tls=None, version=False, starttls=False,
                 faults=None, auth_ok=True, quota=None):
        self.ch = ch or Choices()
        self.store = dict(store or {})
        self.order = list(self.store)
        self.active = active
        self.caps_plain = list(caps_plain if caps_plain is not None else DEFAULT_CAPS)
        self.caps_tls = list(caps_tls if caps_tls is not None else self.caps_plain)
        if version:
            for caps in (self.caps_plain, self.caps_tls):
                if not any(c[0] == b"VERSION" for c in caps):
                    caps.append((b"VERSION", b"1.0"))
        if starttls:
            if not any(c[0] == b"STARTTLS" for c in self.caps_plain):
                self.caps_plain.append((b"STARTTLS", None))
        self.tls = False
        self.authenticated = False
        self.auth_ok = auth_ok
        self.faults = list(faults or [])  # [(verb, occurrence, action)] action in NO BYE SILENCE EOF
        self.seen = {}
        self.closed = False
        self.silent = False
        self.inbuf = b""
        self.out = b""  # bytes not yet handed to recv
        self.violations = []
        self.log = []  # (verb, args) of every parsed command
        self.auth_state = None
        self.auth_log = []  # (mechanism, channel 'plain'|'tls', payload...)
        self.expect_tls = False
        self.quota = quota
        self.greeted = False
        # 0: OK "text"   1: OK (TAG "motd") {n} literal whose lines look like status lines   2: bare OK
        self.handshake_ok_form = 0

    # -- output helpers
    def emit(self, b):
        if not self.closed or True:
            self.out += b

    def capability_lines(self):
        caps = self.caps_tls if self.tls else self.caps_plain
        out = b""
        for name, val in caps:
            out += enc_quoted(name)
            if val is not None:
                out += b" " + enc_quoted(val)
            out += CRLF
        return out

    def handshake_ok(self, text):
        if self.handshake_ok_form == 1:
            return status(b"OK", b'TAG "motd"', b"Scheduled maintenance.\r\nOK until then.\r\nNO \"x\"", literal=True)
        if self.handshake_ok_form == 2:
            return status(b"OK")
        return status(b"OK", None, text)

    def greet(self):
        self.greeted = True
        f = self.fault_for("GREETING")
        if f:
            return self.apply_fault(f)
        self.emit(self.capability_lines() + self.handshake_ok(b"RefMS ready."))

    def fault_for(self, verb):
        k = self.seen.get(verb, 0)
        self.seen[verb] = k + 1
        for fv, occ, action in self.faults:
            if fv == verb and occ == k:
                return action
        return None

    def apply_fault(self, action):
        if action == "NO":
            self.emit(status(b"NO", None, b"injected refusal"))
        elif action == "NO-BARE":
            self.emit(status(b"NO"))  # no response code, no text (legal)
        elif action.startswith("NO:"):
            self.emit(status(b"NO", action[3:].encode("ascii"), b"injected refusal"))  # with the given response code
        elif action == "BYE":
            self.emit(status(b"BYE", None, b"injected bye"))
            self.closed = True
        elif action == "SILENCE":
            self.silent = True
        elif action == "EOF":
            self.closed = True
        elif action == "GARBAGE":
            self.emit(b"* what is this\r\n")
            self.silent = True
        elif action == "BYE-REFERRAL":
            # RFC 5804 1.3: the server sends the client elsewhere
            self.emit(status(b"BYE", b'REFERRAL "sieve://other.example.org"', b"Try the other server"))
            self.closed = True
        else:
            raise AssertionError(action)

    # -- input
    def feed(self, data, tls_channel=False):
        if self.closed:
            self.violations.append("data written after the server closed the connection: %r" % data[:40])
            return
        if tls_channel != self.tls:
            self.violations.append("data written on the %s channel while the session is %s" % (
                "TLS" if tls_channel else "plain", "TLS" if self.tls else "plain"))
        self.inbuf += data
        while self.inbuf and not self.closed:
            if self.auth_state is not None:
                if not self._auth_continue():
                    break
                continue
            try:
                r = parse_command(self.inbuf)
            except CmdError as e:
                self.violations.append("unparsable command: %s (%r)" % (e, self.inbuf[:60]))
                # resynchronise like a real server: drop the line, answer NO
                i = self.inbuf.find(CRLF)
                self.inbuf = self.inbuf[i + 2:] if i >= 0 else b""
                self.emit(status(b"NO", None, b"parse error"))
                continue
            if r is None:
                break
            verb, args, used = r
            self.inbuf = self.inbuf[used:]
            self.log.append((verb, args))
            self.handle(verb, args)

    def leftover_violation(self):
        if self.inbuf:
            self.violations.append("incomplete command left in the server's input: %r" % self.inbuf[:60])
            self.inbuf = b""

    # -- handlers
    def handle(self, verb, args):
        f = self.fault_for(verb)
        if f == "DROP-REPLY":
            # the command IS executed, only its reply is lost on the way (the client times out; the connection stays usable)
            keep = self.out
            h = getattr(self, "do_" + verb, None)
            if h is not None and (verb not in SCRIPT_VERBS or self.authenticated):
                h(args)
            self.out = keep
            return
        if f:
            return self.apply_fault(f)
        if self.silent:
            return
        if verb in SCRIPT_VERBS and not self.authenticated:
            self.violations.append("%s before a successful AUTHENTICATE" % verb)
            return self.emit(status(b"NO", None, b"authenticate first"))
        h = getattr(self, "do_" + verb)
        h(args)

    def sval(self, a):
        return a[1].decode("utf-8", "replace")

    N_TEXT_FORMS = 6

    def _text_choice(self, text):
        """-> (text, literal?, response code or None). Forms of a status text: 0 as given, quoted | 1 literal | 2 quoted text with {digits}
        look-alikes | 3 response code + literal | 4 response code + two-line literal whose second line starts like a status line |
        5 response code + quoted"""
        if not self.authenticated:
            return text, False, None
        c = getattr(self, "status_form", None)
        if c is None:
            c = self.ch.choose("status-text-form", self.N_TEXT_FORMS)
        if c == 1:
            return text, True, None
        if c == 2:
            return text + b" {1} ${2}", False, None
        if c == 3:
            return text, True, b'TAG "t1"'
        if c == 4:
            return text + b"\r\nOK, done", True, b"WARNINGS"
        if c == 5:
            return text, False, b'TAG "t1"'
        return text, False, None

    def ok(self, text):
        text, lit, rc = self._text_choice(text)
        self.emit(status(b"OK", rc, text, literal=lit))

    def no(self, rcode, text):
        text, lit, rc = self._text_choice(text)
        self.emit(status(b"NO", rcode if rcode is not None else rc, text, literal=lit))

    def do_CAPABILITY(self, args):
        self.emit(self.capability_lines())
        self.ok(b"Capability completed.")

    def do_NOOP(self, args):
        self.ok(b"NOOP completed.")

    def do_UNAUTHENTICATE(self, args):
        self.authenticated = False
        self.ok(b"done")

    def do_LOGOUT(self, args):
        self.ok(b"Logout completed.")
        self.closed = True

    def do_STARTTLS(self, args):
        if self.tls or not any(c[0] == b"STARTTLS" for c in self.caps_plain):
            self.violations.append("STARTTLS not offered")
            return self.no(None, b"STARTTLS not available")
        if args:
            pass
        self.emit(self.handshake_ok(b"Begin TLS negotiation now."))
        self.expect_tls = True

    def tls_established(self):
        """called by the virtual TLS wrapper after a successful handshake"""
        self.tls = True
        self.expect_tls = False
        f = self.fault_for("TLSCAPS")
        if f:
            return self.apply_fault(f)
        self.emit(self.capability_lines() + self.handshake_ok(b"TLS negotiation successful."))

    def do_AUTHENTICATE(self, args):
        mech = self.sval(args[0]).upper()
        chan = "tls" if self.tls else "plain"
        caps = self.caps_tls if self.tls else self.caps_plain
        offered = []
        for n, v in caps:
            if n == b"SASL" and v:
                offered = v.decode().split()
        if mech not in offered:
            self.violations.append("AUTHENTICATE with mechanism %s not announced (%s)" % (mech, " ".join(offered)))
        # a server may refuse (or drop) the AUTHENTICATE command itself, before any challenge of a multi-step mechanism
        f = self.fault_for("AUTHSTART")
        if f:
            self.auth_log.append((mech, chan, None))
            return self.apply_fault(f)
        if mech == "PLAIN":
            if len(args) < 2:
                self.auth_state = ("PLAIN", [])
                self.emit(enc_quoted(b"") + CRLF)
                return
            self.auth_log.append((mech, chan, args[1][1]))
            return self._auth_finish()
        if mech == "OAUTHBEARER":
            if len(args) < 2:
                self.auth_state = ("OAUTHBEARER", [])
                self.emit(enc_quoted(b"") + CRLF)
                return
            self.auth_log.append((mech, chan, args[1][1]))
            if self._oauth_error():
                return
            return self._auth_finish()
        if mech == "LOGIN":
            if len(args) > 1:
                self.violations.append("LOGIN takes no initial response")
            self.auth_state = ("LOGIN", [])
            self.emit(enc_quoted(base64.b64encode(b"Username:")) + CRLF)
            return
        if mech == "DIGEST-MD5":
            self.auth_state = ("DIGEST-MD5", [])
            realm = getattr(self, "digest_realm", "ref")
            chal = ((b'realm="%s",' % realm.encode()) if realm else b"") + b'nonce="OA6MG9tEQGm2hh",qop="auth",algorithm=md5-sess,charset=utf-8'
            self.emit(enc_quoted(base64.b64encode(chal)) + CRLF)
            return
        self.auth_log.append((mech, chan, None))
        self.no(None, b"Unsupported mechanism")

    def _auth_continue(self):
        """one continuation line = one string CRLF; returns False when more bytes are needed"""
        try:
            r = parse_string(self.inbuf, 0)
        except CmdError as e:
            self.violations.append("bad SASL continuation: %s (%r)" % (e, self.inbuf[:40]))
            i = self.inbuf.find(CRLF)
            self.inbuf = self.inbuf[i + 2:] if i >= 0 else b""
            self.auth_state = None
            self.no(None, b"bad continuation")
            return True
        if r is None:
            return False
        kind, val, pos = r
        if self.inbuf[pos:pos + 2] != CRLF:
            if len(self.inbuf) < pos + 2:
                return False
            self.violations.append("junk after SASL continuation string: %r" % self.inbuf[pos:pos + 10])
        self.inbuf = self.inbuf[pos + 2:]
        mech, got = self.auth_state
        got.append(val)
        chan = "tls" if self.tls else "plain"
        if mech == "LOGIN":
            if len(got) == 1:
                self.emit(enc_quoted(base64.b64encode(b"Password:")) + CRLF)
                return True
            self.auth_log.append((mech, chan, tuple(got)))
            self.auth_state = None
            self._auth_finish()
            return True
        if mech == "OAUTHBEARER-ERR":
            # the client's dummy response to the error challenge (RFC 7628 3.2.3): the exchange now fails
            self.auth_state = None
            self._auth_finish()
            return True
        if mech in ("PLAIN", "OAUTHBEARER"):
            self.auth_log.append((mech, chan, got[0]))
            self.auth_state = None
            if mech == "OAUTHBEARER" and self._oauth_error():
                return True
            self._auth_finish()
            return True
        if mech == "DIGEST-MD5":
            if len(got) == 1:
                self.auth_log.append((mech, chan, got[0]))
                rsp = self._digest_rspauth(got[0])
                if rsp is None:
                    self.auth_state = None
                    self.no(None, b"Authentication failed.")
                    return True
                if getattr(self, "digest_bad_rspauth", False):
                    rsp = b"0" * 32  # a server that does not know the password after all: the client has to refuse it
                if getattr(self, "auth_final_sasl", False):
                    # final data travels with the completion response instead of a further round trip
                    self.auth_state = None
                    self._auth_finish(sasl=b"rspauth=" + rsp)
                    return True
                self.emit(enc_quoted(base64.b64encode(b"rspauth=" + rsp)) + CRLF)
                return True
            self.auth_state = None
            if got[1] != b"":
                self.violations.append("DIGEST-MD5: final client response must be empty, got %r" % got[1][:30])
            self._auth_finish()
            return True
        return True

    DIGEST_NONCE = "OA6MG9tEQGm2hh"
    DIGEST_REALM = "ref"

    def _digest_rspauth(self, b64resp):
        """RFC 2831 2.1.2.1 / 2.1.3 with the password from self.digest_users; None = response is wrong"""
        import hashlib

        try:
            raw = base64.b64decode(b64resp, validate=True).decode("utf-8")
        except Exception:  # noqa
            return None
        fields = parse_digest_fields(raw)
        if fields is None:
            return None
        user = fields.get("username")
        pw = getattr(self, "digest_users", {}).get(user)
        if pw is None:
            return None

        def H(b):
            return hashlib.md5(b).digest()

        def HEX(b):
            return hashlib.md5(b).hexdigest()

        a1 = H(("%s:%s:%s" % (user, fields.get("realm", ""), pw)).encode("utf-8")) + (
            ":%s:%s" % (fields.get("nonce"), fields.get("cnonce"))).encode("utf-8")
        if "authzid" in fields:
            a1 += (":" + fields["authzid"]).encode("utf-8")

        def kd(a2):
            return HEX(("%s:%s:%s:%s:%s:%s" % (HEX(a1), fields.get("nonce"), fields.get("nc"), fields.get("cnonce"),
                                                fields.get("qop"), HEX(a2.encode("utf-8")))).encode("utf-8"))

        sent_realm = getattr(self, "digest_realm", "ref") or ""
        if fields.get("realm", "") != sent_realm:
            return None
        if fields.get("nonce") != self.DIGEST_NONCE or fields.get("response") != kd("AUTHENTICATE:" + fields.get("digest-uri", "")):
            return None
        return kd(":" + fields.get("digest-uri", "")).encode("ascii")

    def _oauth_error(self):
        """RFC 7628 3.2.2/3.2.3: a refused token is answered with an error challenge; the client sends a dummy response and only
        then gets the failure (servers configured with oauth_error_challenge)"""
        if self.auth_ok or not getattr(self, "oauth_error_challenge", False):
            return False
        self.auth_state = ("OAUTHBEARER-ERR", [])
        self.emit(enc_quoted(base64.b64encode(b'{"status":"invalid_token","scope":"mail"}')) + CRLF)
        return True

    def _auth_finish(self, sasl=None):
        f = self.fault_for("AUTHRESULT")
        if f:
            return self.apply_fault(f)
        # RFC 5804 2.1: the completion response may carry final server data as a SASL response code - on OK (success data)
        # and, for this reference, also on NO (a server that checked the exchange and refuses the login all the same)
        rcode = None
        if getattr(self, "auth_final_sasl", False):
            rcode = b"SASL " + enc_quoted(base64.b64encode(sasl if sasl is not None else b"final"))
        if self.auth_ok:
            self.authenticated = True
            text, lit, _rc = self._text_choice(b"Logged in.")
            self.emit(status(b"OK", rcode, text, literal=lit))
        else:
            self.no(rcode, b"Authentication failed.")

    def do_HAVESPACE(self, args):
        if self.ch.choose("havespace-quota", 2) == 1:
            return self.no(b"QUOTA/MAXSIZE", b"Quota exceeded")
        self.ok(b"Putscript would succeed.")

    def do_PUTSCRIPT(self, args):
        name = self.sval(args[0])
        if name == "":
            return self.no(None, b"Invalid script name")
        if self.ch.choose("putscript-quota", 2) == 1:
            return self.no(b"QUOTA/MAXSCRIPTS", b"Quota exceeded")
        if name not in self.store:
            self.order.append(name)
        self.store[name] = args[1][1]
        self.ok(b"Putscript completed.")

    def do_CHECKSCRIPT(self, args):
        if not any(c[0] == b"VERSION" for c in (self.caps_tls if self.tls else self.caps_plain)):
            self.violations.append("CHECKSCRIPT sent to a server that does not announce VERSION")
        if self.ch.choose("checkscript-bad", 2) == 1:
            return self.no(None, b"line 1: syntax error")
        self.ok(b"Script checked successfully.")

    def do_LISTSCRIPTS(self, args):
        out = b""
        for n in self.order:
            out += enc_string(n.encode("utf-8"), self.ch, "list-name-literal")
            if n == self.active:
                # ABNF literals are case-insensitive (RFC 5234 2.3): ACTIVE may be written in any letter case
                out += b" " + getattr(self, "active_marker", b"ACTIVE")
            out += CRLF
        self.emit(out)
        self.ok(b"Listscripts completed.")

    def do_SETACTIVE(self, args):
        name = self.sval(args[0])
        if name == "":
            self.active = None
            return self.ok(b"Active script is now deactivated.")
        if name not in self.store:
            return self.no(b"NONEXISTENT", b"Script does not exist.")
        self.active = name
        self.ok(b"Setactive completed.")

    def do_GETSCRIPT(self, args):
        name = self.sval(args[0])
        if name not in self.store:
            return self.no(b"NONEXISTENT", b"Script does not exist.")
        body = self.store[name]
        if can_quote(body) and self.ch.choose("getscript-quoted", 2) == 1:
            self.emit(enc_quoted(body) + CRLF)
        else:
            self.emit(enc_literal(body) + CRLF)
        self.ok(b"Getscript completed.")

    def do_DELETESCRIPT(self, args):
        name = self.sval(args[0])
        if name not in self.store:
            return self.no(b"NONEXISTENT", b"Script does not exist.")
        if name == self.active:
            return self.no(b"ACTIVE", b"You may not delete an active script.")
        del self.store[name]
        self.order.remove(name)
        self.ok(b"Deletescript completed.")

    def do_RENAMESCRIPT(self, args):
        if not any(c[0] == b"VERSION" for c in (self.caps_tls if self.tls else self.caps_plain)):
            self.violations.append("RENAMESCRIPT sent to a server that does not announce VERSION")
        old, new = self.sval(args[0]), self.sval(args[1])
        if old not in self.store:
            return self.no(b"NONEXISTENT", b"Script does not exist.")
        if new in self.store:
            return self.no(b"ALREADYEXISTS", b"Script already exists.")
        self.store[new] = self.store.pop(old)
        self.order[self.order.index(old)] = new
        if self.active == old:
            self.active = new
        self.ok(b"Renamescript completed.")

    def snapshot(self):
        return (tuple((n, self.store[n]) for n in self.order), self.active, self.authenticated, self.tls, self.closed)


def parse_digest_fields(raw):
    """RFC 2831 digest-response: comma separated key=value, value token or quoted-string with \\-escapes.
    -> dict or None when malformed"""
    out = {}
    i = 0
    n = len(raw)
    while i < n:
        j = raw.find("=", i)
        if j < 0:
            return None
        key = raw[i:j].strip()
        i = j + 1
        if i < n and raw[i] == '"':
            i += 1
            val = []
            while True:
                if i >= n:
                    return None
                c = raw[i]
                if c == "\\":
                    if i + 1 >= n:
                        return None
                    val.append(raw[i + 1])
                    i += 2
                    continue
                if c == '"':
                    i += 1
                    break
                val.append(c)
                i += 1
            out[key] = "".join(val)
        else:
            j = raw.find(",", i)
            if j < 0:
                j = n
            out[key] = raw[i:j].strip()
            i = j
        if i < n:
            if raw[i] != ",":
                return None
            i += 1
    return out


# ---------------------------------------------------------------------------------------------
# virtual socket


class VSocket:
    """Socket seen by the client. `seg` decides how recv() cuts the available bytes:
         None            everything available (up to n)
         ('cuts', [..])  absolute cut offsets into the stream served from now on
         ('cap', k)      at most k bytes per call
         ('choice', [k1,k2..]) explorer choice point at every recv: default all, deviation i = first k_i bytes (negative: all but
                         the last |k|; "cr1" / "crl": up to and including the first / last CR, i.e. between a CR and its LF)
    """

    def __init__(self, server, tls=False):
        self.server = server
        self.tls = tls
        self.written = b""
        self.writes = []
        self.seg = None
        self.served = 0  # bytes handed out since seg was installed
        self.recv_calls = 0
        self.empty_streak = 0
        self.closed_by_client = False
        self.timeout_set = None

    # client-facing API ---------------------------------------------------
    def settimeout(self, t):
        self.timeout_set = t

    def close(self):
        self.closed_by_client = True

    def sendall(self, data):
        # write-side fault: (k, exception factory) - accept the first k octets of this call's data, then raise once (a send
        # timeout / a dropped connection after a partial write); what was accepted is on the wire for good
        wf = getattr(self, "write_fault", None)
        if wf is not None and len(wf) > 2 and wf[2] > 0:
            self.write_fault = (wf[0], wf[1], wf[2] - 1)  # let this many sendall calls pass first
            wf = None
        if wf is not None:
            k, make_exc = wf[:2]
            self.write_fault = None
            part = data[:k]
            if part:
                self.written += part
                self.writes.append(part)
                self.server.feed(part, tls_channel=self.tls)
            raise make_exc()
        self.written += data
        self.writes.append(data)
        self.server.feed(data, tls_channel=self.tls)

    send = sendall

    def set_seg(self, seg):
        self.seg = seg
        self.served = 0
        self.recv_calls = 0

    def recv(self, n):
        self.recv_calls += 1
        srv = self.server
        avail = srv.out
        budget = 4 * (len(avail) + self.served) + 64
        if self.recv_calls > budget:
            raise Livelock("recv called %d times" % self.recv_calls)
        if not avail:
            if srv.closed:
                self.empty_streak += 1
                if self.empty_streak >= 3:
                    raise Livelock("recv() returned EOF %d times in a row and the client keeps reading" % self.empty_streak)
                return b""
            raise _socket.timeout("timed out")
        self.empty_streak = 0
        k = min(n, len(avail))
        seg = self.seg
        if seg is not None:
            kind = seg[0]
            if kind == "cap":
                k = min(k, seg[1])
            elif kind == "cuts":
                for c in seg[1]:
                    if c > self.served:
                        k = min(k, c - self.served)
                        break
            elif kind == "choice":
                opts = []
                for x in seg[1]:
                    # positive: first x bytes; negative: all but the last |x|; "cr1"/"crl": up to and including the first / last CR
                    if x == "cr1":
                        x = avail.find(b"\r", 0, k) + 1
                    elif x == "crl":
                        x = avail.rfind(b"\r", 0, k) + 1
                    elif x < 0:
                        x = k + x
                    if 0 < x < k and x not in opts:
                        opts.append(x)
                c = srv.ch.choose("recv-cut", 1 + len(opts))
                if c:
                    k = opts[c - 1]
        k = max(1, k)
        out = avail[:k]
        srv.out = avail[k:]
        self.served += len(out)
        return out


class TLSContext:
    """stand-in for ssl.SSLContext: wrap_socket is an environment choice (succeeds / raises SSLError)"""

    def __init__(self, env):
        self.env = env

    def load_cert_chain(self, *a, **k):
        pass

    def wrap_socket(self, sock, server_hostname=None):
        import ssl

        env = self.env
        env["wrap_calls"] = env.get("wrap_calls", 0) + 1
        if env.get("wrap_fails"):
            raise ssl.SSLError("handshake failure (injected)")
        srv = sock.server
        if not srv.expect_tls:
            srv.violations.append("TLS handshake started without STARTTLS OK")
        ns = VSocket(srv, tls=True)
        ns.seg = sock.seg
        env["tls_socket"] = ns
        env["wrapped_at_plain_len"] = len(sock.written)
        srv.tls_established()
        return ns
