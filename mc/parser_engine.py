"""E1: explicit-state BFS over the real parser, state = shortest word reaching it.

Every transition target (word) is executed on the implementation AND on the reference PDA and
judged by the selected oracles; a word is expanded further only if its key
(impl configuration at token exhaustion, reference configuration) is new.
"""
import re
import time

from . import seams, canon, words
from .refsieve import lexer as rlexer
from .refsieve.pda import Pda, WRONG_IN_ITSELF

_LINE_RE = re.compile(r"^line (\d+): .+", re.S)


class Case:
    __slots__ = ("word", "layout", "text", "raw", "obs", "v", "toks", "lerr", "pda")


def ref_run(text, commands=None):
    toks, lerr, _c = rlexer.tokens(text)
    if isinstance(commands, tuple):
        p = Pda(commands[0], commands[1])
    else:
        p = Pda(commands)
    for t in toks:
        p.feed(t)
    return p, toks, lerr


def execute(word, layout="space", want_config=True, commands=None, raw=None, text=None, parser=None):
    c = Case()
    c.word = word
    c.layout = layout
    if text is None:
        c.raw = raw if raw is not None else words.expand(word)
        c.text = words.render(None, layout, c.raw)
    else:
        c.raw = raw
        c.text = text
    c.obs = seams.run_parse(c.text, want_config=want_config, parser=parser)
    c.pda, c.toks, c.lerr = ref_run(c.text, commands)
    c.v = c.pda.end(c.lerr)
    return c


def selfcheck_render(case):
    """The strict reference lexer must split render(word) back into exactly the word's tokens."""
    raw = case.raw
    if raw is None or any(k in ("raw", "glue") for k, _ in raw):
        return None
    if case.lerr is not None:
        return "reference lexer error %r on rendered word" % (case.lerr,)
    if len(raw) != len(case.toks):
        return "token count %d != %d" % (len(case.toks), len(raw))
    for (k, t), tok in zip(raw, case.toks):
        tt = tok.text.decode("utf-8", "surrogateescape")
        if case.layout == "crlf" and k == "ml":
            tt = tt.replace("\r\n", "\n")
        if case.layout == "upper" and k in ("id", "tag"):
            t = t.upper()
        if k != tok.kind or t != tt:
            return "token %r rendered, %r lexed" % ((k, t), (tok.kind, tt))
    return None


# ---------------------------------------------------------------------------------------------
# violations


def viol(prop, direction, case, reason=None, owner=None, detail=None, ctx=None, what=""):
    v = case.v
    if reason is None and v is not None and v.kind == "INVALID":
        reason, owner, detail, ctx = v.reason, v.owner, v.detail, v.ctx
    sig = [prop, direction, reason, owner, detail if isinstance(detail, (str, type(None))) else str(detail), ctx]
    return {
        "property": prop,
        "signature": sig,
        "what": what,
        "engine": "parser",
        "word": list(case.word) if case.word is not None else None,
        "layout": case.layout,
        "text": case.text.decode("utf-8", "backslashreplace"),
        "text_hex": case.text.hex(),
        "ref": repr(v),
        "observed": case.obs.brief(),
    }


def first_diff_owner(case):
    """Owner command for signatures of wrongly rejected valid scripts: the command that owns the
    token at which the implementation stopped (by reference token positions)."""
    obs = case.obs
    pos = obs.error_pos
    if not (isinstance(pos, tuple) and len(pos) == 3):
        return None, None
    line, col = pos[0], pos[1]
    owner = None
    kind = None
    last_id = None
    for t in case.toks:
        if t.kind == "id":
            last_id = t.text.decode("ascii", "replace").lower()
        if (t.line, t.col) >= (line, col):
            kind = t.kind if t.kind != "tag" else t.text.decode("ascii", "replace").lower()
            owner = last_id
            break
    else:
        owner = last_id
        kind = "eof"
    return owner, kind


# ---------------------------------------------------------------------------------------------
# oracles (each returns a list of violation dicts)


def oracle_c01(case):
    v, obs = case.v, case.obs
    if v.kind == "IRREGULAR" or obs.verdict == "SKIPPED":
        return []
    if v.kind == "VALID":
        if obs.verdict == "ACC":
            return []
        if obs.verdict == "REJ":
            owner, kind = first_diff_owner(case)
            return [viol("C01", "rejects-valid", case, "VALID", owner, kind, None,
                         "valid script rejected: %s" % obs.error)]
        return [viol("C01", "no-verdict:" + obs.verdict, case, "VALID", None, (obs.exc or "").split(":")[0], None,
                     "valid script: %s" % obs.brief())]
    # INVALID
    if obs.verdict == "REJ":
        return []
    if obs.verdict == "ACC":
        return [viol("C01", "accepts-invalid", case, what="invalid script accepted (%s)" % v.reason)]
    return [viol("C01", "no-verdict:" + obs.verdict, case, what="invalid script: %s" % obs.brief())]


def oracle_c02(case):
    obs = case.obs
    out = []
    if obs.verdict == "SKIPPED":
        return out
    nl = case.text.count(b"\n")
    if obs.verdict == "HANG":
        owner, _ = None, None
        last_id = None
        for t in case.toks:
            if t.kind == "id":
                last_id = t.text.decode("ascii", "replace").lower()
        out.append(viol("C02", "hang", case, "STEPS", last_id, obs.exc, case.pda.ctx(),
                        "lexer steps exceed 3*len+16 (%s)" % obs.exc))
        return out
    if obs.verdict == "EXC":
        last_id = None
        for t in case.toks:
            if t.kind == "id":
                last_id = t.text.decode("ascii", "replace").lower()
        exc_type = (obs.exc or "").split(":")[0]
        out.append(viol("C02", "exception", case, exc_type, _exc_owner(case, last_id), None, None,
                        "parse raised %s" % obs.exc))
        return out
    if obs.verdict == "BADRET":
        out.append(viol("C02", "bad-return", case, "RET", None, type(obs.ret).__name__, None,
                        "parse returned %r" % (obs.ret,)))
        return out
    if obs.verdict == "REJ":
        err = obs.error
        m = _LINE_RE.match(err) if isinstance(err, str) else None
        if not m:
            out.append(viol("C02", "error-format", case, "ERRFMT", None, None, None, "error=%r" % (err,)))
        else:
            n = int(m.group(1))
            if not (1 <= n <= 1 + nl):
                out.append(viol("C02", "error-line-range", case, "ERRLINE", None, None, None,
                                "line %d outside 1..%d" % (n, 1 + nl)))
        ep = obs.error_pos
        if not (isinstance(ep, tuple) and len(ep) == 3 and all(type(x) is int for x in ep)):
            out.append(viol("C02", "error-pos-shape", case, "ERRPOS", None, None, None, "error_pos=%r" % (ep,)))
    elif obs.verdict == "ACC":
        if not obs.result_ok:
            out.append(viol("C02", "bad-result", case, "RESULT", None, None, None, "result is not a list of commands"))
    return out


def _exc_owner(case, last_id):
    return last_id


def oracle_c03(case):
    obs, v = case.obs, case.v
    if obs.verdict != "ACC" or obs.tree is None:
        return []
    if "repeat-tag" in v.irregular or (v.irregular & {"str-ctl"}):
        return []
    out = []
    if isinstance(obs.tree, tuple) and obs.tree and obs.tree[0] == "CANON-ERROR":
        return [viol("C03", "tree-unreadable", case, "CANON", None, obs.tree[1][:60], None, "cannot walk result")]
    # (i) token conservation, needs no grammar
    src = []
    for t in case.toks:
        if t.kind == "id":
            src.append(("id", t.text.decode("ascii").lower()))
        elif t.kind == "tag":
            src.append(("tag", t.text.decode("ascii").lower()))
        elif t.kind in ("str", "ml"):
            # octets that are not UTF-8 must not be "repaired" on the way into the tree: they decode to lone surrogates here, which no
            # value produced by a lossy decode can equal
            src.append(("s", t.text.decode("utf-8", "surrogateescape")))
        elif t.kind == "num":
            src.append(("n", t.text.decode("ascii")))
    src.sort()
    got = canon.tree_tokens(obs.tree)
    if src != got:
        missing = _msub(src, got)
        extra = _msub(got, src)
        owner, kind = _loss_owner(case, missing, extra)
        out.append(viol("C03", "tree-loss" if missing else "tree-invented", case,
                        "CONSERVATION", owner, kind, None,
                        "tokens missing from tree: %s; tokens not in source: %s" % (missing[:4], extra[:4])))
        return out
    # (ii) shape equality with the reference's generic tree
    if v.tree is not None and v.tree != obs.tree:
        owner = _first_diff(v.tree, obs.tree)
        out.append(viol("C03", "tree-shape", case, "SHAPE", owner, None, None,
                        "tree differs from the reference's generic tree"))
    return out


def _msub(a, b):
    b = list(b)
    out = []
    for x in a:
        if x in b:
            b.remove(x)
        else:
            out.append(x)
    return out


def _loss_owner(case, missing, extra):
    """Signature detail for a conservation failure: owner = nearest preceding identifier of the first
    missing token in the source; kind = token class."""
    if missing:
        k, text = missing[0]
        last_id = None
        for t in case.toks:
            tk = {"str": "s", "ml": "s", "num": "n"}.get(t.kind, t.kind)
            tt = t.text.decode("utf-8", "replace")
            if t.kind in ("id", "tag"):
                tt = tt.lower()
            if tk == k and tt == text:
                if k == "id":
                    return text, "id"
                return last_id, (text if k == "tag" else k)
            if t.kind == "id":
                last_id = tt
        return None, k
    k, text = extra[0]
    return None, "extra-" + k


def _first_diff(a, b):
    """name of the first node (pre-order) where two canonical trees differ"""
    if a == b:
        return None
    for x, y in zip(a, b):
        if x != y:
            if x[0] != y[0]:
                return x[0]
            if x[1] != y[1] or x[2] != y[2]:
                return x[0]
            d = _first_diff(x[3], y[3])
            if d:
                return d
            if x[4] is None or y[4] is None:
                return x[0]
            d = _first_diff(x[4], y[4])
            return d or x[0]
    if len(a) != len(b):
        longer = a if len(a) > len(b) else b
        return longer[min(len(a), len(b))][0]
    return None


EXT_OF_CMD = None
EXT_OF_TAG = None


def _ext_tables():
    global EXT_OF_CMD, EXT_OF_TAG
    if EXT_OF_CMD is None:
        from .refsieve import table as T

        EXT_OF_CMD = {n: c["ext"] for n, c in T.COMMANDS.items() if c["ext"]}
        EXT_OF_TAG = {}
        for n, c in T.COMMANDS.items():
            for s in c["slots"]:
                for t, (ext, _p, _v) in s.items():
                    if ext:
                        EXT_OF_TAG[(n, t)] = ext
    return EXT_OF_CMD, EXT_OF_TAG


def oracle_c07_walk(case):
    """Independent walk over the accepted tree: every extension-bound construct is preceded by a
    completed require naming its extension (frozen table)."""
    obs = case.obs
    if obs.verdict != "ACC" or obs.tree is None or (obs.tree and obs.tree[0] == "CANON-ERROR"):
        return []
    ecmd, etag = _ext_tables()
    loaded = set()
    bad = []

    def visit(n):
        name = n[0]
        e = ecmd.get(name)
        if e and e not in loaded:
            bad.append((name, None, e))
        for t, _p in n[1]:
            e = etag.get((name, t))
            if e and e not in loaded:
                bad.append((name, t, e))
        for t in n[3]:
            visit(t)
        for c in n[4] or ():
            visit(c)
        if name == "require":
            for v in n[2]:
                items = v[1] if v[0] == "sl" else (v[1],)
                for it in items:
                    loaded.add(it.strip('"'))

    for n in obs.tree:
        visit(n)
    if not bad:
        return []
    name, tag, ext = bad[0]
    return [viol("C07", "ungated", case, "UNGATED", name, tag or "command", ext,
                 "%s%s used without a preceding require %r" % (name, " " + tag if tag else "", ext))]


# ---------------------------------------------------------------------------------------------
# reference-guided completion of a live prefix


def complete_tokens(pda_factory, raw_tokens, commands=None):
    """Given a word's raw tokens whose reference run is live, append the shortest obvious valid
    completion; returns list of raw tokens or None."""
    import copy

    out = list(raw_tokens)
    text = words.render(None, "space", out)
    p, toks, lerr = ref_run(text, commands)
    if lerr is not None or not p.live():
        return None
    guard = 0
    while len(p.stack) > 1 and guard < 60:
        guard += 1
        f = p.stack[-1]
        k = f["k"]
        nxt = None
        if k == "slist":
            nxt = ("str", '"c%d"' % len(out)) if f["expect"] == "str" else ("]", "]")
        elif k == "tlist":
            nxt = ("id", "true") if f["expect"] == "test" else (")", ")")
        elif k == "block":
            nxt = ("}", "}")
        else:
            spec = f["spec"]
            if f["pending"] is not None:
                ptype, values, t = f["pending"]
                if values:
                    nxt = ("str", values[0])
                elif ptype == "n":
                    nxt = ("num", "7")
                else:
                    nxt = ("str", '"c%d"' % len(out))
            elif f["phase"] == "args" and f["npos"] < len(spec["pos"]) - (1 if spec["optfirst"] and f["npos"] == 0 else 0) \
                    and not (spec["optfirst"] and f["npos"] >= 1):
                want = spec["pos"][f["npos"]] if not spec["optfirst"] else "sl"
                if isinstance(want, tuple):
                    nxt = ("tag", want[1][0])
                elif want == "n":
                    nxt = ("num", "7")
                else:
                    nxt = ("str", '"c%d"' % len(out))
            elif spec["tests"] == 1 and f["ntests"] == 0:
                nxt = ("id", "true")
            elif spec["tests"] == "list" and not f["node"].istestlist:
                nxt = ("(", "(")
            elif f["ctx"] == "test":
                # a test ends implicitly with its parent's next token: look below
                below = p.stack[-2]
                if below["k"] == "tlist":
                    nxt = (")", ")")
                else:
                    bs = below["spec"]
                    nxt = ("{", "{") if bs["block"] else (";", ";")
                    if below["ctx"] == "test":
                        # nested test (not ...): find the command owning the chain
                        i = len(p.stack) - 2
                        while i >= 0 and p.stack[i]["k"] == "cmd" and p.stack[i]["ctx"] == "test":
                            i -= 1
                        own = p.stack[i]
                        if own["k"] == "tlist":
                            nxt = (")", ")")
                        else:
                            nxt = ("{", "{") if own["spec"]["block"] else (";", ";")
            else:
                nxt = ("{", "{") if spec["block"] else (";", ";")
        out.append(nxt)
        tok = rlexer.Tok(nxt[0], nxt[1].encode("utf-8"), 0, 1, 1)
        p.feed(tok)
        if not p.live():
            return None
    if len(p.stack) > 1:
        return None
    return out


# ---------------------------------------------------------------------------------------------
# BFS


CLOSERS = [
    (";",), ("{", "}"), ("STR", ";"), ("STR", "STR", ";"), ("STR", "{", "}"), ("STR", "STR", "{", "}"),
    ("STR", "STR", "STR", "{", "}"), ("NUM", "{", "}"), (")", "{", "}"), ("STR", ")", "{", "}"),
    ("STR", "STR", ")", "{", "}"), ("]", ";"), ("]", "STR", "{", "}"), ("}",), (";", "}"),
]


class Stats:
    def __init__(self):
        self.states = 0
        self.transitions = 0
        self.executions = 0
        self.max_depth = 0
        self.verdicts = {}
        self.refkinds = {}
        self.nontrivial = set()
        self.samples = []
        self.capped = None
        self.completions = 0
        self.closer_runs = 0
        self.layout_runs = 0
        self.harness_errors = []
        self.audit_groups = 0
        self.audit_words = 0
        self.audit_mismatches = 0
        self.audit_examples = []

    def merge(self, o):
        self.states += o.states
        self.transitions += o.transitions
        self.executions += o.executions
        self.max_depth = max(self.max_depth, o.max_depth)
        for k, v in o.verdicts.items():
            self.verdicts[k] = self.verdicts.get(k, 0) + v
        for k, v in o.refkinds.items():
            self.refkinds[k] = self.refkinds.get(k, 0) + v
        self.nontrivial |= o.nontrivial
        self.samples.extend(o.samples[:2])
        if o.capped:
            self.capped = (self.capped or []) + [o.capped]
        self.completions += o.completions
        self.closer_runs += o.closer_runs
        self.layout_runs += o.layout_runs
        self.harness_errors.extend(o.harness_errors)


def bfs(scn, depth, oracles, layouts=(), layout_depth=3, max_states=None, deadline=None, commands=None,
        order_seed=0, first_symbols=None, post=None, base_layout="space", audit=False):
    """Explore scenario `scn` = dict(name, prefix, sigma) to `depth` symbols after the prefix.

    oracles: list of functions(case) -> [violation]; layouts: extra layouts run for every new-state
    representative and for every word up to layout_depth; `post(case, stats)` optional extra per-case hook
    (returns violations). Returns (Stats, violations)."""
    import random

    sigma = list(scn["sigma"])
    if order_seed:
        random.Random(order_seed).shuffle(sigma)
    prefix = tuple(scn.get("prefix", ()))
    st = Stats()
    viols = []
    seen = set()
    frontier = [prefix]
    # the prefix itself
    c0 = execute(prefix, commands=commands, layout=base_layout)
    hc = selfcheck_render(c0)
    if hc:
        st.harness_errors.append("%s: %s" % (scn["name"], hc))
    seen.add((c0.obs.config, c0.pda.key()))
    st.states = 1
    t0 = time.time()
    # abstraction audit (audit=True): no deduplication; members of one key must agree, for every symbol, on the
    # verdict class and on the successor's key (one-step bisimulation)
    succ = {}
    keyof = {prefix: (c0.obs.config, c0.pda.key())}
    for d in range(1, depth + 1):
        nxt = []
        for w in frontier:
            syms = sigma
            if d == 1 and first_symbols is not None:
                syms = [s for s in sigma if s in first_symbols]
            for s in syms:
                w2 = w + (s,)
                case = execute(w2, commands=commands, layout=base_layout)
                st.transitions += 1
                st.executions += 1
                obs, v = case.obs, case.v
                st.verdicts[obs.verdict] = st.verdicts.get(obs.verdict, 0) + 1
                st.refkinds[v.kind] = st.refkinds.get(v.kind, 0) + 1
                for orc in oracles:
                    viols.extend(orc(case))
                if post is not None:
                    viols.extend(post(case, st) or ())
                live = obs.config is not None
                ref_live = case.pda.live() and case.lerr is None
                new = False
                if audit:
                    pk = keyof.get(w)
                    if pk is not None:
                        sk = (obs.config, case.pda.key()) if live else None
                        succ.setdefault(pk, {}).setdefault(s, set()).add((obs.verdict, v.kind, sk))
                        if live:
                            keyof[w2] = sk
                if live:
                    key = (obs.config, case.pda.key())
                    if audit:
                        nxt.append(w2)
                        if key not in seen:
                            seen.add(key)
                            st.states += 1
                            st.max_depth = d
                    elif key not in seen:
                        seen.add(key)
                        new = True
                        st.states += 1
                        st.max_depth = d
                        nxt.append(w2)
                        if obs.verdict == "ACC" or len(case.toks) > len(prefix) + 1:
                            st.nontrivial.add(hash(key))
                        if len(st.samples) < 6 and obs.verdict == "ACC" and d >= 2:
                            st.samples.append({"word": words.show(w2[len(prefix):]), "impl": obs.brief(), "ref": repr(v)})
                    if new and not ref_live:
                        # reference dead, implementation still live: a latent wrong acceptance. Try generic
                        # closers so that the complete (invalid) script is judged as a whole.
                        for closer in CLOSERS:
                            cc = execute(w2 + closer, commands=commands, want_config=False)
                            st.executions += 1
                            st.closer_runs += 1
                            if cc.obs.verdict != "REJ":
                                for orc in oracles:
                                    viols.extend(orc(cc))
                                break
                elif ref_live and "C01" in scn.get("complete_for", ("C01",)):
                    # implementation stopped on a prefix the reference can still complete:
                    # judge the shortest valid completion as a whole script
                    comp = complete_tokens(None, case.raw, commands)
                    if comp is not None:
                        cc = execute(w2, raw=comp, commands=commands, want_config=False)
                        st.executions += 1
                        st.completions += 1
                        for orc in oracles:
                            viols.extend(orc(cc))
                if layouts and (new or d <= layout_depth):
                    for lay in layouts:
                        lc = execute(w2, layout=lay, want_config=False, commands=commands)
                        st.executions += 1
                        st.layout_runs += 1
                        hc = selfcheck_render(lc)
                        if hc:
                            st.harness_errors.append("%s/%s: %s: %s" % (scn["name"], lay, words.show(w2), hc))
                            continue
                        if lc.v.kind != v.kind:
                            st.harness_errors.append("%s/%s: reference verdict differs across layouts for %s: %r vs %r"
                                                     % (scn["name"], lay, words.show(w2), lc.v, v))
                            continue
                        for orc in oracles:
                            viols.extend(orc(lc))
            if max_states and st.states > max_states:
                st.capped = "%s: state cap %d reached at depth %d" % (scn["name"], max_states, d)
                break
            if deadline and time.time() > deadline:
                st.capped = "%s: time budget reached at depth %d (depth %d complete)" % (scn["name"], d, d - 1)
                break
        if st.capped:
            break
        frontier = nxt
        if not frontier:
            break
    if audit:
        st.audit_groups = len(succ)
        st.audit_words = len(keyof)
        st.audit_mismatches = sum(1 for m in succ.values() for outs in m.values() if len(outs) > 1)
        for pk, m in succ.items():
            for sym, outs in m.items():
                if len(outs) > 1 and len(st.audit_examples) < 3:
                    st.audit_examples.append("symbol %r after key %r: %r" % (sym, str(pk)[:80], sorted(str(o)[:60] for o in outs)))
    return st, viols


# ---------------------------------------------------------------------------------------------
# C07 removal direction


def remove_extension(raw, ext):
    """raw tokens with `ext` removed from every require (command dropped if its list empties);
    returns None when ext is not named by any require."""
    out = []
    i = 0
    n = len(raw)
    found = False
    q = '"%s"' % ext
    while i < n:
        k, t = raw[i]
        if k == "id" and t.lower() == "require" and i + 1 < n:
            # collect the command up to ';'
            j = i + 1
            while j < n and raw[j][0] != ";":
                j += 1
            if j >= n:
                out.extend(raw[i:])
                break
            body = raw[i + 1:j]
            names = [x for x in body if x[0] == "str"]
            if any(x[1] == q for x in names):
                found = True
                keep = [x for x in names if x[1] != q]
                if keep:
                    out.append(raw[i])
                    if len(body) == 1:
                        out.append(keep[0])
                    else:
                        out.append(("[", "["))
                        for m, x in enumerate(keep):
                            if m:
                                out.append((",", ","))
                            out.append(x)
                        out.append(("]", "]"))
                    out.append(raw[j])
                i = j + 1
                continue
            out.extend(raw[i:j + 1])
            i = j + 1
            continue
        out.append(raw[i])
        i += 1
    return out if found else None


def post_c07_removal(case, st):
    v = case.v
    if v.kind != "VALID" or not v.uses or case.raw is None:
        return []
    out = []
    for ext in sorted({u[0] for u in v.uses}):
        raw2 = remove_extension(case.raw, ext)
        if raw2 is None:
            continue
        c2 = execute(case.word, raw=raw2, want_config=False, layout=case.layout or "space")
        st.executions += 1
        if c2.v.kind != "INVALID" or c2.v.reason not in ("EXT_CMD", "EXT_TAG"):
            # removal produced something else first (cannot happen for a valid script, but stay sound)
            st.harness_errors.append("removal of %s from %r gives %r" % (ext, words.show(case.word), c2.v))
            continue
        want_ext = c2.v.detail
        if want_ext != ext:
            st.harness_errors.append("removal of %s: reference names %s first in %r" % (ext, want_ext, words.show(case.word)))
            continue
        obs = c2.obs
        expect = "extension '%s' not loaded" % ext
        ok = obs.verdict == "REJ" and isinstance(obs.error, str) and re.match(r"^line \d+: ", obs.error) and \
            obs.error.split(": ", 1)[1] == expect
        if not ok:
            out.append(viol("C07", "removal", c2, c2.v.reason, c2.v.owner, ext, c2.v.ctx,
                            "after removing %r from require: expected rejection %r, got %s" % (ext, expect, obs.brief())))
            continue
        # same removal on a parser object that has just accepted the fully required script: the extensions of the
        # previous parse must not carry over
        ns = seams.load()
        p = ns.parser.Parser()
        seams.run_parse(case.text, parser=p, want_tree=False)
        o3 = seams.run_parse(c2.text, parser=p, want_tree=False)
        st.executions += 2
        if not (o3.verdict == "REJ" and o3.error == obs.error):
            v = viol("C07", "removal-reused-parser", c2, c2.v.reason, c2.v.owner, ext, c2.v.ctx,
                     "a parser that had just accepted the fully required script gives %s for the script without %r" % (o3.brief(), ext))
            v["prior_hex"] = case.text.hex()
            out.append(v)
    # two needed extensions removed at once: the message must name the one that is missing FIRST in script order
    exts = sorted({u[0] for u in v.uses})
    for i, e1 in enumerate(exts):
        for e2 in exts[i + 1:]:
            raw2 = remove_extension(case.raw, e1)
            raw3 = remove_extension(raw2, e2) if raw2 is not None else None
            if raw3 is None:
                continue
            c3 = execute(case.word, raw=raw3, want_config=False, layout=case.layout or "space")
            st.executions += 1
            if c3.v.kind != "INVALID" or c3.v.reason not in ("EXT_CMD", "EXT_TAG") or c3.v.detail not in (e1, e2):
                continue
            expect = "extension '%s' not loaded" % c3.v.detail
            obs = c3.obs
            ok = obs.verdict == "REJ" and isinstance(obs.error, str) and re.match(r"^line \d+: ", obs.error) and \
                obs.error.split(": ", 1)[1] == expect
            if not ok:
                out.append(viol("C07", "removal-pair", c3, c3.v.reason, c3.v.owner, c3.v.detail, c3.v.ctx,
                                "after removing %r and %r from require: expected rejection %r (first missing in script order), got %s" % (
                                    e1, e2, expect, obs.brief())))
    return out


# ---------------------------------------------------------------------------------------------
# C18 error positions

SUFFIXES = ((";",), ("}",), ("foo",), ("RAW:&",))


def oracle_c18(case):
    obs, v = case.obs, case.v
    if obs.verdict != "REJ" or v.kind != "INVALID":
        return []
    if v.irregular:
        # an irregularity (omitted arguments, repeated tag, ...) precedes the reference's first invalid token: the
        # implementation may legitimately stop there already, the properties make no claim about such prefixes
        return []
    ep = obs.error_pos
    if not (isinstance(ep, tuple) and len(ep) == 3 and all(type(x) is int for x in ep)):
        return []  # C02's business
    m = _LINE_RE.match(obs.error or "")
    if not m:
        return []
    line_reported = int(m.group(1))
    toks = case.toks
    idx = v.index
    out = []
    if v.reason == "LEX":
        off, line, col, why = case.lerr
        want = (line, col, None)
    elif idx < len(toks):
        t = toks[idx]
        want = (t.line, t.col, len(t.text))
    else:
        want = None  # end of input
    exact = v.reason in WRONG_IN_ITSELF and (v.reason != "SURPLUS_ARG" or v.detail in ("s", "n"))
    if exact and want is not None:
        bad = None
        if line_reported != want[0]:
            bad = "reported line %d, offending token starts on line %d" % (line_reported, want[0])
        elif (ep[0], ep[1]) != (want[0], want[1]):
            bad = "error_pos %r, offending token at line %d column %d" % (ep, want[0], want[1])
        elif want[2] is not None and ep[2] != want[2]:
            bad = "error_pos length %d, offending token is %d bytes" % (ep[2], want[2])
        if bad:
            out.append(viol("C18", "position", case, what=bad))
    else:
        if want is None:
            # first invalidating "token" is the end of input: anything from the last token on is fine
            if toks:
                t = toks[-1]
                lo = (t.line, t.col)
            else:
                lo = (1, 1)
        else:
            lo = (want[0], want[1])
        if (ep[0], ep[1]) < lo or line_reported < lo[0]:
            out.append(viol("C18", "position-early", case,
                            what="reported position line %d / %r is before the first invalidating token at %r" % (
                                line_reported, ep, lo)))
    return out


def post_c18_suffix(case, st):
    """the verdict of a token-level rejection must not depend on what follows the token"""
    obs = case.obs
    if obs.verdict != "REJ" or obs.config is not None or case.raw is None:
        return []
    out = []
    for suf in SUFFIXES:
        raw2 = case.raw + words.expand(suf)
        c2 = execute(case.word + suf, layout=case.layout, raw=raw2, want_config=False)
        st.executions += 1
        o2 = c2.obs
        # the suffix must not have changed the tokenisation of the prefix itself (e.g. a separator
        # containing "*/" after an unterminated comment): then it is not "what follows the token"
        if case.lerr is not None and (c2.lerr is None or c2.lerr[0] != case.lerr[0]):
            continue
        if len(c2.toks) < len(case.toks) or any(a.offset != b.offset or a.text != b.text for a, b in zip(case.toks, c2.toks)):
            continue
        if o2.verdict != "REJ" or o2.error != obs.error or o2.error_pos != obs.error_pos:
            v = viol("C18", "suffix-dependent", case,
                     what="with %r appended: %s %r instead of %s %r" % (" ".join(suf), o2.brief(), o2.error_pos, obs.brief(), obs.error_pos))
            v["text"] = c2.text.decode("utf-8", "backslashreplace")
            v["text_hex"] = c2.text.hex()
            v["base_text_hex"] = case.text.hex()
            out.append(v)
            break
    return out


# ---------------------------------------------------------------------------------------------
# reuse: the same text on a parser that was just left "dirty" by a refused parse

DIRTY = [b'keep;\nkeep;\n\n  stop;\nkeep;\nfoo;\n', b'require ["copy", "x" ;', b'if anyof (true, header ["a" {', b'if true { foo; }', b'\n\n\nfoo;', b'keep', b'if header :is "a"',
         b'require ["relational","regex","imap4flags","fileinto"]; if true { keep; ']
_dirty_parser = [None, 0]


def post_reuse(case, st):
    """C03 / C02 / C18 on reused objects: verdict, error, error_pos and tree must equal the fresh parser's"""
    if case.obs.verdict not in ("ACC", "REJ"):
        return []
    ns = seams.load()
    if _dirty_parser[0] is None:
        _dirty_parser[0] = ns.parser.Parser()
    p = _dirty_parser[0]
    _dirty_parser[1] += 1
    d = DIRTY[_dirty_parser[1] % len(DIRTY)]
    seams.run_parse(d, parser=p, want_tree=False)
    o2 = seams.run_parse(case.text, parser=p)
    st.executions += 2
    o1 = case.obs
    if (o2.verdict, o2.error, o2.error_pos, o2.tree) != (o1.verdict, o1.error, o1.error_pos, o1.tree):
        what = "verdict" if o2.verdict != o1.verdict else ("tree" if o2.tree != o1.tree else "error-position")
        prop = "C03" if what == "tree" else ("C18" if what == "error-position" else "C02")
        last = None
        for t in case.toks:
            if t.kind == "id":
                last = t.text.decode("ascii", "replace").lower()
        v = viol(prop, "reused-parser:" + what, case, "REUSE", last if what == "tree" else None, None, None,
                 "after a refused parse of %r the same parser gives %s %r for a text a fresh parser %s %r" % (
                     d, o2.brief(), o2.error_pos, o1.brief(), o1.error_pos))
        v["dirty_hex"] = d.hex()
        return [v]
    return []


# ---------------------------------------------------------------------------------------------
# C04 print/parse round trip


def roundtrip(text):
    """returns None when the round trip holds, else (direction, detail, what)"""
    import io

    ns = seams.load()
    o1 = seams.run_parse(text, keep_parser=True)
    if o1.verdict != "ACC" or o1.tree is None:
        return None
    p1 = o1.parser
    buf = io.StringIO()
    try:
        with seams.watchdog():
            for c in p1.result:
                c.tosieve(target=buf)
    except seams.Hang:
        return ("print-hang", None, "tosieve() does not terminate")
    except Exception as e:  # noqa
        return ("print-exception", type(e).__name__, "tosieve() raised %s: %s" % (type(e).__name__, str(e)[:100]))
    t2 = buf.getvalue()
    o2 = seams.run_parse(t2, keep_parser=True)
    if o2.verdict != "ACC":
        return ("reparse-rejected", None, "serialised text %r is not accepted: %s" % (t2[:200], o2.brief()))
    if o2.tree != o1.tree:
        return ("tree-changed", _first_diff(o1.tree, o2.tree), "tree after re-parsing %r differs" % (t2[:200],))
    buf2 = io.StringIO()
    try:
        for c in o2.parser.result:
            c.tosieve(target=buf2)
    except Exception as e:  # noqa
        return ("print-exception", type(e).__name__, "second tosieve() raised %s" % type(e).__name__)
    if buf2.getvalue() != t2:
        return ("not-fixed-point", None, "second serialisation differs: %r vs %r" % (buf2.getvalue()[:120], t2[:120]))
    return None


def post_c04(case, st):
    if case.obs.verdict != "ACC":
        return []
    st.executions += 2
    r = roundtrip(case.text)
    if r is None:
        return []
    direction, detail, what = r
    owner = detail if direction == "tree-changed" else None
    if owner is None:
        last = None
        for t in case.toks:
            if t.kind == "id":
                last = t.text.decode("ascii", "replace").lower()
        owner = last
    return [viol("C04", direction, case, "ROUNDTRIP", owner, detail if direction != "tree-changed" else None, None, what)]
