"""Evidence writer (/root/.vp/EVIDENCE.schema.json, level model_checking)."""
import json
import os

ROOT = os.path.dirname(os.path.dirname(os.path.abspath(__file__)))


def write(prop, tier, seed, coverage, wall_s, violations, assumptions):
    cov = dict(coverage)
    cov.setdefault("states", 0)
    cov.setdefault("transitions", 0)
    cov.setdefault("traces_validated_against_impl", cov.get("evaluations", 0))
    cov.setdefault("evaluations", cov.get("transitions", 0))
    cov.setdefault("distinct_nontrivial", 0)
    cov.setdefault("samples", [])
    cov.setdefault("exhaustive", False)
    for k in ("states", "transitions", "traces_validated_against_impl", "evaluations", "distinct_nontrivial"):
        cov[k] = int(cov[k])
    ev = {
        "property_id": prop,
        "tier": tier,
        "seed": int(seed),
        "level": "model_checking",
        "coverage": cov,
        "assumptions": list(assumptions),
        "wall_s": round(float(wall_s), 2),
        "violations": int(violations),
    }
    # runs against a scratch copy of the repository (VERIF_REPO, used for seeded changes) must not replace the evidence of /repo
    scratch = os.environ.get("VERIF_REPO") not in (None, "", "/repo")
    d = os.environ.get("VERIF_EVIDENCE_DIR") or os.path.join(ROOT, "evidence_scratch" if scratch else "evidence")
    os.makedirs(d, exist_ok=True)
    path = os.path.join(d, prop + ".json")
    tmp = path + ".tmp"
    with open(tmp, "w", encoding="utf-8", errors="backslashreplace") as fp:
        json.dump(ev, fp, indent=1, ensure_ascii=False, default=str)
        fp.write("\n")
    os.replace(tmp, path)
    return path
