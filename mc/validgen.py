"""Grammar-directed generator of valid scripts (E3) and their single-token edits.

Everything is produced as *words* (tuples of symbols, see mc/words.py) so that position-unique values and
all layouts apply. Validity is never assumed: every generated word is judged by the reference PDA."""
import itertools

from .refsieve import table as T
from . import scenarios as S


# ---------------------------------------------------------------------------------------------
# nested tests


def tests(depth):
    """test expressions (as symbol tuples) by nesting depth; operands chosen with repetition (duplicates matter)"""
    base = [("true",), ("false",), ("exists", '"a"'), ("header", ":is", "STR", "STR")]
    level = list(base)
    for d in range(depth):
        nxt = list(base)
        for t in level:
            nxt.append(("not",) + t)
            nxt.append(("anyof", "(") + t + (")",))
        pairs = itertools.product(level, repeat=2) if len(level) <= 40 else itertools.product(level, base)
        for a, b in pairs:
            nxt.append(("allof", "(") + a + (",",) + b + (")",))
            if len(level) <= 40:
                nxt.append(("anyof", "(") + a + (",",) + b + (",",) + a + (")",))
        seen = set()
        level = [x for x in nxt if not (x in seen or seen.add(x))]
    return level


def test_scripts(depth):
    for t in tests(depth):
        yield ("if",) + t + ("{", "keep", ";", "}")


# ---------------------------------------------------------------------------------------------
# every tag subset and order of every command


def _pos_forms(p, last):
    if isinstance(p, tuple):
        return [[x] for x in p[1]]
    if p == "n":
        return [["NUM"], ["10K"], ["1k"], ["2m"], ["3G"], ["0"], ["007"]]
    if p == "s":
        return ([["STR"], ["ML"], ["text:\n..x\n."], ["text: #c\nabc\n."], ["text:\n\n."], ["text:\n."], ["TEXT:\nabc\n."], ["Text:\t#c\nabc\n."], ['"a\\"b\\\\"'], ['""'], ['"p  q r"'], ['"\udced\udca0\udc80"']]
                if last else [["STR"]])
    return [["STR"], ["LIST1"], ["LIST2"], ["LISTDUP"]]


def _tag_syms(tag, spec):
    ext, ptype, values = spec
    if ptype is None:
        return [[tag]]
    if values:
        return [[tag, v] for v in values]
    if ptype == "n":
        return [[tag, "NUM"]]
    if ptype == "s":
        return [[tag, "STR"], [tag, "ML"], [tag, '"p  q r"']]
    return [[tag, "STR"], [tag, "LIST2"], [tag, "ML"], [tag, "LISTDUP"], [tag, '"p  q r"']]


def command_forms(name, max_slots=None, max_forms=None):
    """all uses of one command: subsets of its tag slots x orders x tag alternatives x positional forms"""
    c = T.COMMANDS[name]
    slots = c["slots"]
    n = len(slots)
    out = []
    pos = c["pos"]
    pos_sets = []
    if c["optfirst"]:
        pos_sets = [[f] for f in _pos_forms(pos[1], True)] + [[["STR"], f] for f in _pos_forms(pos[1], True)]
        if pos[0] == "sl":
            pos_sets += [[["LIST2"], ["STR"]]]
    else:
        forms = [_pos_forms(p, i == len(pos) - 1) for i, p in enumerate(pos)]
        pos_sets = [list(x) for x in itertools.product(*forms)] if forms else [[]]
    for k in range(0, n + 1):
        if max_slots is not None and k > max_slots:
            break
        for subset in itertools.combinations(range(n), k):
            for order in itertools.permutations(subset):
                alts = []
                for si in order:
                    a = []
                    for tag, spec in sorted(slots[si].items()):
                        a.extend(_tag_syms(tag, spec))
                    alts.append(a)
                for choice in (itertools.product(*alts) if alts else [()]):
                    tagpart = [s for ch in choice for s in ch]
                    for ps in pos_sets:
                        # size: the tag is positional and comes first
                        pospart = [s for f in ps for s in f]
                        out.append(tuple([name] + tagpart + pospart))
                        if max_forms and len(out) >= max_forms:
                            return out
    return out


def wrap(name, form):
    c = T.COMMANDS[name]
    if c["role"] == "test":
        return ("if",) + form + ("{", "keep", ";", "}")
    if c["tests"] == 1:
        return form + ("true", "{", "keep", ";", "}")
    if c["block"]:
        return ("if", "true", "{", "}") + form + ("{", "keep", ";", "}")
    return form + (";",)


def command_scripts(name, max_slots=None, max_forms=None):
    c = T.COMMANDS[name]
    if c["tests"] or name in ("if", "elsif", "else"):
        return
    for f in command_forms(name, max_slots, max_forms):
        yield wrap(name, f)


def crosstag_scripts(name):
    """tag applicability across the whole table: every tag (and every tag-parameter value that is itself a tag) any command
    knows, put in tag position of `name`'s minimal valid use, bare and with the parameter shapes its donors give it"""
    c = T.COMMANDS[name]
    if c["tests"] or name in ("if", "elsif", "else"):
        return
    donors = {}
    for cn, cc in sorted(T.COMMANDS.items()):
        for s in cc["slots"]:
            for tag, (ext, ptype, values) in s.items():
                donors.setdefault(tag, set()).add(ptype)
                for v in values or ():
                    if v.startswith(":"):
                        donors.setdefault(v, set()).add(None)
        for p in cc["pos"]:
            if isinstance(p, tuple):
                for v in p[1]:
                    donors.setdefault(v, set()).add(None)
    base = command_forms(name, max_slots=0, max_forms=1)[0]
    seen = set()
    for tag in sorted(donors):
        shapes = [[tag], [tag, "STR"], [tag, "STR", "STR"]]
        if "n" in donors[tag]:
            shapes.append([tag, "NUM"])
        if "sl" in donors[tag]:
            shapes.append([tag, "LIST2"])
        for sh in shapes:
            for f in (tuple([name] + sh + list(base[1:])), tuple(list(base) + sh)):
                if f not in seen:
                    seen.add(f)
                    yield wrap(name, f)


def repeat_scripts(name):
    """the same optional tag slot filled twice (irregular for C01/C03, but C02/C04/C07 still claim accepted inputs)"""
    c = T.COMMANDS[name]
    if c["tests"] or name in ("if", "elsif", "else") or not c["slots"]:
        return
    pos = c["pos"][-1:] if c["optfirst"] else c["pos"]
    pospart = []
    for p in pos:
        pospart += _pos_forms(p, False)[0]
    for slot in c["slots"]:
        alts = []
        for tag, spec in sorted(slot.items()):
            alts.extend(_tag_syms(tag, spec))
        for a, b in itertools.product(alts, repeat=2):
            yield wrap(name, tuple([name] + a + b + pospart))
            for other in c["slots"]:
                if other is slot:
                    continue
                t0, spec0 = sorted(other.items())[0]
                mid = _tag_syms(t0, spec0)[0]
                yield wrap(name, tuple([name] + a + mid + b + pospart))


# ---------------------------------------------------------------------------------------------
# control structures


def chains(depth):
    """if / elsif / else chains with nested blocks"""
    leaf = [("keep", ";"), ("stop", ";"), ("keep", ";", "discard", ";"), (), ("reject", "ML", ";"), ("fileinto", ":copy", "STR", ";")]
    blocks = list(leaf)
    for d in range(depth):
        nb = list(leaf)
        for b in blocks:
            nb.append(("if", "true", "{") + b + ("}",))
            nb.append(("if", "true", "{") + b + ("}", "else", "{") + b + ("}",))
            nb.append(("if", "false", "{", "}", "elsif", "true", "{") + b + ("}", "else", "{", "stop", ";", "}"))
            nb.append(("if", "false", "{") + b + ("}",))  # the shape of a disabled filter: its content is checked like any other
            nb.append(("keep", ";", "if", "not", "true", "{") + b + ("}", "elsif", "false", "{", "}", "elsif", "true", "{", "}"))
        seen = set()
        blocks = [x for x in nb if not (x in seen or seen.add(x))]
    return [b for b in blocks if b]


# ---------------------------------------------------------------------------------------------
# single-token edits

SUBST = [";", "{", "}", "(", ")", ",", "[", "]", "STR", "NUM", ":is", ":foreign", "true", "keep", "foo", "not", "if", "else",
         "ML", "text:\r\nab\r\n..c\r\n.", "GLUE:@@", "GLUE:\xff", "RAW:\udc80", "RAW:\udcbfz", "GLUE:\udca9"]  # multi-line tokens as the offending token (LF and CRLF inside)


def flatten(word):
    out = []
    for s in word:
        if " " in s and not s.startswith(('"', "RAW:")) and s[:5].lower() != "text:":
            out.extend(s.split())
        elif s == "LIST1":
            out.extend(["[", "STR", "]"])
        elif s == "LIST2":
            out.extend(["[", "STR", ",", "STR", "]"])
        elif s == "LISTDUP":
            out.extend(["[", '"dup"', ",", "STR", ",", '"dup"', "]"])
        else:
            out.append(s)
    return tuple(out)


def edits(word, start=0):
    """every single-token deletion, duplication, adjacent swap and substitution after position `start`"""
    w = flatten(word)
    n = len(w)
    for i in range(start, n):
        yield w[:i] + w[i + 1:]
        yield w[:i] + (w[i], w[i]) + w[i + 1:]
        if i + 1 < n and w[i] != w[i + 1]:
            yield w[:i] + (w[i + 1], w[i]) + w[i + 2:]
        for s in SUBST:
            if s != w[i]:
                yield w[:i] + (s,) + w[i + 1:]
    for s in SUBST:
        yield w + (s,)


PREFIX = S.REQ_ALL


# ---------------------------------------------------------------------------------------------
# require structures: which capability strings load what, in every list shape

REQ_NAMES = ['"fileinto"', '"copy"', '"imap4flags"', '"Fileinto"', '" fileinto"', '"copy\t"', '"nosuch"', '""', '"vacation-seconds"', '"vacation"',
             # capability strings that are not extension names: comparator-* (their names contain hyphens), names of extension-bound commands
             '"comparator-i;ascii-casemap"', '"setflag"',
             # backslash sequences that mean something to Python but not to Sieve (there `\x` is just `x`): these name no extension
             '"\\x66ileinto"', '"cop\\171"']
REQ_USES = [("fileinto", "STR", ";"), ("fileinto", ":copy", "STR", ";"), ("keep", ":flags", "STR", ";"), ("keep", ";"),
            ("if", "hasflag", "STR", "{", "fileinto", "STR", ";", "}"), ("redirect", ":copy", "STR", ";"),
            ("vacation", ":seconds", "NUM", "STR", ";"), ("vacation", "STR", ";"), ("setflag", "STR", ";")]


def _req_cmds(maxnames):
    out = []
    for n in REQ_NAMES:
        out.append(("require", n, ";"))
    for k in range(1, maxnames + 1):
        for names in itertools.product(REQ_NAMES, repeat=k):
            w = ["require", "["]
            for i, n in enumerate(names):
                if i:
                    w.append(",")
                w.append(n)
            out.append(tuple(w + ["]", ";"]))
    return out


def require_scripts(maxnames_one, maxnames_two):
    """(no REQ_ALL prefix) one require command with <= maxnames_one names, or two with <= maxnames_two each
    (names may repeat within and across commands), followed by each use of REQ_USES"""
    for r in _req_cmds(maxnames_one):
        for u in REQ_USES:
            yield r + u
    two = _req_cmds(maxnames_two)
    for r1 in two:
        for r2 in two:
            for u in REQ_USES:
                yield r1 + r2 + u
