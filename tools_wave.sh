#!/bin/bash
# tools_wave.sh <N>: sets up a wave of seeded property-breaking changes (DESIGN.md section 8).
#   /tmp/seed<N>/C01..C20   scratch git worktrees of /repo (detached HEAD), each with PROPERTY.txt (the property's text and the ideas
#                           of all stored seeds of that property, to be avoided) and PROMPT.txt (the sub-agent's whole brief)
#   /tmp/verif_base<N>      worktree of /verif at HEAD: the checks "as they stood" for the honest first-run measurement
# Nothing of /verif is handed to the sub-agents. Remove afterwards:
#   for i in $(seq -w 1 20); do git -C /repo worktree remove --force /tmp/seed<N>/C$i; done; git -C /repo worktree prune
#   rm -rf /tmp/seed<N>; git -C /verif worktree remove --force /tmp/verif_base<N>
set -e
N=$1
[ -n "$N" ] || { echo "usage: tools_wave.sh <N>"; exit 2; }
D=/tmp/seed$N
mkdir -p $D
for i in $(seq -w 1 20); do git -C /repo worktree add -q --detach $D/C$i HEAD; done
D=$D python3 - <<'EOF'
import json, os
D = os.environ["D"]
needs = {}
for c in sorted(os.listdir('/verif/seeded')):
    if not os.path.isdir('/verif/seeded/' + c):
        continue
    m = json.load(open('/verif/seeded/%s/meta.json' % c))
    needs.setdefault(m['property'], []).append(m['needs_to_manifest'])
for l in open('/verif/properties.jsonl'):
    p = json.loads(l)
    t = "PROPERTY %s: %s\n\nSTATEMENT\n%s\n\nQUANTIFIED OVER (%s)\n%s\n\nWHY THE EXISTING TESTS CANNOT SETTLE IT\n%s\n\nCODE THE PROPERTY IS ANCHORED IN\n%s\n\nALREADY TAKEN (other engineers' changes relied on these; choose a different function and a different trigger)\n%s\n" % (
        p['id'], p['title'], p['statement'], ", ".join(p['quantifier']['over']), p['quantifier']['text'], p['why_tests_cant'],
        "\n".join("- %s (%s)" % (m['name'], m['where']) for m in p['anchors']['mechanism']), "\n".join("- " + x for x in needs[p['id']]))
    open('%s/%s/PROPERTY.txt' % (D, p['id']), 'w').write(t)
EOF
git -C /verif worktree add -q /tmp/verif_base$N HEAD
cat > $D/PROMPT.txt <<'EOF'
You are working in a scratch git worktree of the Python library tonioo/sievelib at WDIR/CXX (a detached checkout; commit nothing, push nothing). Read WDIR/CXX/PROPERTY.txt: it states one semantic property of the library (and, at the end, the ideas that are already taken - do not reuse them or close variants of them). Your job: write ONE realistic change to the library's source (under WDIR/CXX/sievelib, not the tests) that BREAKS this property while (a) the package still imports and (b) the existing test suite still passes unchanged: `cd WDIR/CXX && PYTHONPATH=WDIR/CXX /venv/bin/python -m pytest -q -p no:cacheprovider sievelib` must report 123 passed. The change should look like a plausible maintenance edit, optimisation, "robustness fix", feature addition or refactoring slip (a few lines), not sabotage. It must be SUBTLE and ORIGINAL: it must need something specific to manifest - a particular multi-step sequence of operations, a fault or reply at a particular point, a particular segmentation, an unusual but legal input (particular characters, nesting depth, ordering, lengths, encodings, repetition, empty or maximal values), or two cooperating sites that each look fine alone - and ordinary use must not expose it. First read the whole of the relevant source files carefully and list for yourself at least five candidate sites in DIFFERENT functions; pick the one that a reviewer and a careful tester would be least likely to think of, and that is as far as possible from every idea in the ALREADY TAKEN list (different function, different kind of trigger). Prefer a violation of a clause of the property that none of the taken ideas touches, and a trigger that lies inside what the property quantifies over (not an extension of the library's API). Avoid Unicode-normalisation, letter-case, line-length-limit, debug-flag and wall-clock ideas (used already). IMPORTANT: keep every message you write short (a few hundred words at most); think briefly, then act with tool calls one small step at a time - a very long message is cut off and the work is lost. Do not look at or use anything under /verif or /root/.vp; work only inside WDIR/CXX. Do not touch /repo.

Deliver, inside WDIR/CXX/_seed/ (create it):
1. patch.diff - `git diff` of your source change (library files only).
2. demo.py - a small standalone program (run as `PYTHONPATH=WDIR/CXX /venv/bin/python _seed/demo.py`) that exits 0 on the unmodified tree and exits non-zero (failing assertion; for hangs enforce your own timeout with signal.alarm) on the modified tree, demonstrating the property violation through the public API only (for the ManageSieve client use fake sockets via unittest.mock patching socket.create_connection / ssl.create_default_context, or a tiny in-memory fake server).
3. notes.md - which clause of the property is broken, what exactly is needed for it to manifest, what does NOT expose it, and the commands you ran with their results.
Verify all claims yourself before finishing: run the suite with your change applied (123 passed), run demo.py with the change (must fail), then `git checkout -- sievelib` to restore, run demo.py without the change (must exit 0), and leave the worktree with the change NOT applied (clean `git status` except _seed/ and PROPERTY.txt). Reply with a short summary (what you changed, what exposes it).
EOF
for i in $(seq -w 1 20); do sed -e "s#WDIR#$D#g" -e "s/CXX/C$i/g" $D/PROMPT.txt > $D/C$i/PROMPT.txt; done
echo "wave $N ready under $D; baseline /tmp/verif_base$N"
