#!/venv/bin/python
"""dev helper: run a check's run() and print violations aggregated by signature (prefix)"""
import os, sys, importlib, collections, warnings
os.environ.setdefault("PYTHONHASHSEED","0")
warnings.filterwarnings("ignore")
sys.path.insert(0, os.path.dirname(os.path.abspath(__file__)))
prop, tier = sys.argv[1], (sys.argv[2] if len(sys.argv)>2 else "quick")
mod = importlib.import_module("checks."+prop.lower())
res = mod.run(tier, int(os.environ.get("VERIF_SEED","0")))
g = collections.OrderedDict()
for v in res["violations"]:
    s = v["signature"]
    k = tuple(s[:3]) if len(sys.argv)<=3 else tuple(s)
    e = g.setdefault(k, [0, v, set()])
    e[0]+=1
    e[2].add(str(s[3]) if len(s)>3 else '')
    w = v.get("text") or v.get("witness") or ""
    if len(w) < len(e[1].get("text") or e[1].get("witness") or ""): e[1]=v
for k,(n,v,owners) in sorted(g.items(), key=lambda x:-x[1][0])[:int(os.environ.get("TOP","30"))]:
    print(n, k, sorted(owners)[:8], '|', repr((v.get("text") or v.get("witness") or "")[-150:]), '|', repr(str(v.get("observed")))[:150])
c = res["coverage"]
print({k:c[k] for k in c if k in ("states","transitions","traces_validated_against_impl","distinct_nontrivial","impl_verdicts","reference_verdicts","caps_hit","per_operation")})
print("signatures", len(g)); print("harness", res.get("harness_errors")[:5])
