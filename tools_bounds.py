#!/venv/bin/python
"""Fills DESIGN.md section 10 from the evidence files (between the BOUNDS markers)."""
import json, os, re
ROOT = os.path.dirname(os.path.abspath(__file__))
rows = []
for i in range(1, 21):
    pid = "C%02d" % i
    p = os.path.join(ROOT, "evidence", pid + ".json")
    if not os.path.exists(p):
        continue
    e = json.load(open(p))
    c = e["coverage"]
    extra = []
    if c.get("caps_hit"):
        extra.append("%d caps" % len(c["caps_hit"]))
    if c.get("abstraction_audit"):
        extra.append("audit: %d words / %d groups / %d mismatches" % (c["abstraction_audit"]["words_without_dedup"], c["abstraction_audit"]["key_groups"], c["abstraction_audit"]["one_step_mismatches"]))
    rows.append("| %s | %s | %s | %s | %s | %.0f s | %s |" % (pid, e["tier"], c.get("states"), c.get("transitions"), c.get("traces_validated_against_impl"), e["wall_s"], "; ".join(extra) or "exhaustive within bounds" if c.get("exhaustive") else "; ".join(extra) or "capped"))
table = "| check | tier | states | transitions | executions on the real code | wall | notes |\n|---|---|---|---|---|---|---|\n" + "\n".join(rows)
p = os.path.join(ROOT, "DESIGN.md")
s = open(p).read()
if "<!-- BOUNDS:BEGIN -->" in s:
    s = re.sub(r"<!-- BOUNDS:BEGIN -->.*?<!-- BOUNDS:END -->", "<!-- BOUNDS:BEGIN -->\n" + table + "\n<!-- BOUNDS:END -->", s, flags=re.S)
else:
    s = s.replace("| check | states | executions on the real code | wall |\n|---|---|---|---|\nBOUNDS_TABLE", "<!-- BOUNDS:BEGIN -->\n" + table + "\n<!-- BOUNDS:END -->")
open(p, "w").write(s)
print(table)
