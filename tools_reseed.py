#!/venv/bin/python
"""tools_reseed.py [names...] [--tier quick] [--jobs N]

Regression run over the stored seeded changes (/verif/seeded/<name>/): each patch is applied to a scratch copy of
/repo's current tree (never to /repo), the property's check is run against that copy (VERIF_REPO) and must exit 1
with a VIOLATION line. Patches that no longer apply to the current tree (a later fix: commit rewrote the spot) are
listed as stale. Writes /verif/seeded/REGRESSION.json. Scratch copies live under $TMPDIR and are always removed."""
import argparse
import json
import os
import shutil
import subprocess
import sys
import tempfile
import time

ROOT = os.path.dirname(os.path.abspath(__file__))
ap = argparse.ArgumentParser()
ap.add_argument("names", nargs="*")
ap.add_argument("--tier", default="quick")
ap.add_argument("--jobs", type=int, default=1)
a = ap.parse_args()

names = a.names or sorted(d for d in os.listdir(os.path.join(ROOT, "seeded")) if os.path.isfile(os.path.join(ROOT, "seeded", d, "patch.diff")))
out = {}


def one(name):
    d = os.path.join(ROOT, "seeded", name)
    meta = json.load(open(os.path.join(d, "meta.json")))
    prop = meta.get("breaks") or meta["property"]
    tmp = tempfile.mkdtemp(prefix="reseed_")
    try:
        repo = os.path.join(tmp, "repo")
        subprocess.run(["git", "clone", "-q", "/repo", repo], check=True)
        # the working tree of /repo is what counts (it equals HEAD unless a hook is being developed)
        r = subprocess.run(["git", "-C", repo, "apply", os.path.join(d, "patch.diff")], capture_output=True, text=True)
        if r.returncode != 0:
            # a later fix: commit changed a neighbouring line: the hunk still applies with one line of context
            r = subprocess.run(["git", "-C", repo, "apply", "-C1", os.path.join(d, "patch.diff")], capture_output=True, text=True)
        if r.returncode != 0:
            return {"property": prop, "status": "stale-patch", "detail": r.stderr.strip()[:200]}
        t0 = time.time()
        env = dict(os.environ, VERIF_REPO=repo, VERIF_EVIDENCE_DIR=os.path.join(tmp, "evidence"), VERIF_REPLAY_DIR=os.path.join(tmp, "replays"))
        r = subprocess.run([os.path.join(ROOT, "check"), prop, "--tier", a.tier], capture_output=True, text=True, env=env)
        lines = [l for l in r.stdout.splitlines() if l.startswith("VIOLATION")]
        return {"property": prop, "status": "detected" if (r.returncode == 1 and lines) else "MISSED", "exit": r.returncode,
                "violation_lines": len(lines), "wall_s": round(time.time() - t0, 1)}
    finally:
        shutil.rmtree(tmp, ignore_errors=True)


for n in names:
    out[n] = one(n)
    print(n, json.dumps(out[n]), flush=True)

summary = {}
for n, r in out.items():
    summary[r["status"]] = summary.get(r["status"], 0) + 1
print("SUMMARY", json.dumps(summary))
if not a.names:
    json.dump({"tier": a.tier, "summary": summary, "results": out}, open(os.path.join(ROOT, "seeded", "REGRESSION.json"), "w"), indent=1)
sys.exit(1 if summary.get("MISSED") else 0)
