"""C16 — SASL: the right mechanism, carrying exactly the caller's credentials.

E3: announced SASL lists (all subsets of 5 mechanisms in two orders, empty value, missing capability) x
authmech argument x credentials pool x server verdict."""
import base64
import hashlib
import itertools

from mc import pool, wire, refms

MECHS = ["DIGEST-MD5", "PLAIN", "LOGIN", "OAUTHBEARER", "X-OTHER", "PLAIN-CLIENTTOKEN", "X-LOGIN-TOKEN"]
IMPLEMENTED = ["DIGEST-MD5", "PLAIN", "LOGIN", "OAUTHBEARER"]
AUTHMECHS = [None, "DIGEST-MD5", "PLAIN", "LOGIN", "OAUTHBEARER", "X-OTHER", "plain"]
CREDS = [
    ("user", "pass", ""),
    ("user", "pass", "admin"),
    ("us\xe9r", "p\xe4ss€", ""),
    ("a,b=c", 'p"w d', "z,=\" y"),
    ("user@example.org", "", ""),
    ("u", "tok.en-123", "\xe9"),
    ("Bearer", "Bearer abc", "n,a=x"),  # credentials that look like pieces of the mechanisms' own framing
    ("user", "auth=Bearer x\x01", ""),
    ("user", "pass", "user"),  # authorisation id given and equal to the login: still an authorisation id
    ("alice@ref", "pw", ""), ("bob@other.example", "pw", "carol@ref"),
    ("user%example.com", "100%", "%s"), ("50%%off", "%(pw)s", "{0}{}"),  # characters of the formatting mini-languages are characters
    ("\ufeffuser", "\ufeffpw", "\ufeffz"),  # a leading U+FEFF is a character of the credential, not a signature  # logins / authzids ending in "@" + the realm a DIGEST-MD5 challenge offers
]


def sasl_lists():
    out = []
    for k in range(0, len(MECHS) + 1):
        for sub in itertools.combinations(MECHS, k):
            out.append(list(sub))
            if k >= 2:
                out.append(list(reversed(sub)))
    return out


def expected_mech(announced, authmech):
    if announced is None:
        return "NOSASL"
    if authmech in IMPLEMENTED:
        return authmech if authmech in announced else None
    for m in IMPLEMENTED:
        if m in announced:
            return m
    return None


def check_payload(mech, entry, login, password, authz, realm="ref"):
    """decode what was sent; -> None or text"""
    lb, pb, ab = login.encode("utf-8"), password.encode("utf-8"), authz.encode("utf-8")
    _m, _chan, payload = entry
    try:
        if mech == "PLAIN":
            raw = base64.b64decode(payload, validate=True)
            if raw != ab + b"\0" + lb + b"\0" + pb:
                return "PLAIN payload decodes to %r, expected authzid NUL login NUL password" % raw
        elif mech == "LOGIN":
            got = tuple(base64.b64decode(x, validate=True) for x in payload)
            if got != (lb, pb):
                return "LOGIN lines decode to %r" % (got,)
        elif mech == "OAUTHBEARER":
            raw = base64.b64decode(payload, validate=True)
            # RFC 7628: gs2-header "n,a=<authzid>," kvsep auth=Bearer <token> kvsep kvsep ; the client documents login as the identity
            want = b"n,a=" + lb + b",\x01auth=Bearer " + pb + b"\x01\x01"
            if raw != want:
                return "OAUTHBEARER payload %r, expected %r" % (raw, want)
        elif mech == "DIGEST-MD5":
            raw = base64.b64decode(payload, validate=True).decode("utf-8")
            fields = refms.parse_digest_fields(raw)
            if fields is None:
                return "DIGEST-MD5 response %r is not a well-formed list of key=value / key=\"quoted\" pairs" % raw
            if fields.get("username", "") != login:
                return "DIGEST-MD5 username %r" % fields.get("username")
            if (fields.get("authzid") or "") != authz:
                return "DIGEST-MD5 authzid %r" % fields.get("authzid")
            nonce, cnonce, realm = "OA6MG9tEQGm2hh", fields.get("cnonce", ""), (realm or "")
            if (fields.get("realm") or "") != realm:
                return "DIGEST-MD5 realm %r sent, the challenge carried %r" % (fields.get("realm"), realm or None)
            a1 = hashlib.md5(("%s:%s:%s" % (login, realm, password)).encode("utf-8")).digest() + (":%s:%s" % (nonce, cnonce)).encode()
            if authz:
                a1 += b":" + ab
            a2 = "AUTHENTICATE:" + fields.get("digest-uri", "")
            resp = hashlib.md5(("%s:%s:00000001:%s:auth:%s" % (hashlib.md5(a1).hexdigest(), nonce, cnonce,
                                                                 hashlib.md5(a2.encode()).hexdigest())).encode()).hexdigest()
            if fields.get("response") != resp:
                return "DIGEST-MD5 response %r, RFC 2831 gives %r" % (fields.get("response"), resp)
    except Exception as e:  # noqa
        return "%s payload cannot be decoded: %s: %s" % (mech, type(e).__name__, e)
    return None


def one(announced, authmech, cred, verdict, realm="ref", final_sasl=False):
    if announced is None:
        caps = [(b"IMPLEMENTATION", b"x"), (b"SIEVE", b"fileinto")]
    else:
        caps = [(b"IMPLEMENTATION", b"x"), (b"SASL", " ".join(announced).encode()), (b"SIEVE", b"fileinto")]
    srv = refms.RefServer(caps_plain=caps, auth_ok=verdict)
    login, password, authz = cred
    srv.digest_users = {login: password}
    srv.digest_realm = realm
    # RFC 5804 2.1: final server data either in a further round trip or with the completion response, as (SASL "...")
    srv.auth_final_sasl = final_sasl
    s = wire.open_session(srv, authmech=authmech, login=login, password=password, authz=authz)
    o = s.connect_outcome
    want = expected_mech(announced, authmech)
    auths = [e for e in srv.auth_log]
    sent_auth = [v for v, _a in srv.log if v == "AUTHENTICATE"]
    if o.kind in ("livelock", "hang"):
        return ("no-return", "connect does not return (%s)" % o.exc_msg, want)
    if want in (None, "NOSASL"):
        if sent_auth:
            return ("credentials-without-mechanism", "no mechanism qualifies but AUTHENTICATE %r was sent" % (auths or sent_auth), want)
        if o.kind == "ret" and o.value is True:
            return ("connect-true-without-auth", "connect returned True without authenticating", want)
        if o.kind == "exc" and o.exc_type != "Error":
            return ("exception:%s" % o.exc_type, "no mechanism qualifies: %s" % o.brief(), want)
        return None
    if len(sent_auth) != 1:
        return ("auth-count", "%d AUTHENTICATE commands sent" % len(sent_auth), want)
    used = srv.log[[i for i, (v, _a) in enumerate(srv.log) if v == "AUTHENTICATE"][0]][1][0][1].decode().upper()
    if used != want:
        return ("wrong-mechanism", "mechanism %s used, expected %s (announced %r, authmech %r)" % (used, want, announced, authmech), want)
    if o.kind == "exc":
        return ("exception:%s" % o.exc_type, "authentication with %s raised %s" % (want, o.brief()), want)
    entry = [e for e in auths if e[0] == want]
    if not entry:
        return ("no-payload", "no %s payload reached the server" % want, want)
    bad = check_payload(want, entry[0], login, password, authz, realm)
    if bad:
        return ("payload", bad, want)
    if (o.value is True) != bool(verdict):
        return ("verdict", "server said %s, connect returned %r" % ("OK" if verdict else "NO", o.value), want)
    if bool(getattr(s.client, "authenticated", None)) != bool(verdict):
        return ("authenticated-flag", "server said %s, client.authenticated=%r" % ("OK" if verdict else "NO", s.client.authenticated), want)
    if srv.violations:
        return ("protocol-violation", srv.violations[0], want)
    return None


def task(t):
    lists = t
    viols = []
    n = 0
    distinct = set()
    sample = None
    for announced in lists:
        for authmech in AUTHMECHS:
            for ci, cred in enumerate(CREDS):
                for verdict, realm in ((True, "ref"), (True, None), (False, "other.example"), (False, None), (True, "ref")):
                    if realm != "ref" and not (announced and "DIGEST-MD5" in announced):
                        continue
                    for final_sasl in (False, True):
                        r = one(announced, authmech, cred, verdict, realm, final_sasl)
                        n += 1
                        distinct.add((tuple(announced) if announced is not None else None, authmech, ci, verdict, r[0] if r else None))
                        if r:
                            viols.append({"property": "C16", "engine": "wire",
                                          "signature": ["C16", str(r[2]) + ("/final-sasl" if final_sasl else ""), "cred%d" % ci if r[0] == "payload" else "any-cred", r[0]],
                                          "what": "announced %r, authmech %r, credentials %r, server says %s: %s" % (announced, authmech, cred, "OK" if verdict else "NO", r[1]),
                                          "case": {"announced": announced, "authmech": authmech, "cred": ci, "verdict": verdict, "realm": realm, "final_sasl": final_sasl},
                                          "witness": "SASL %r authmech=%r cred=%r verdict=%s" % (announced, authmech, cred, verdict), "observed": r[1][:160]})
                        elif sample is None and announced and len(announced) > 2 and authmech is None:
                            sample = {"announced": announced, "authmech": authmech, "credentials": list(cred), "chosen": expected_mech(announced, authmech)}
    return dict(n=n, distinct=len(distinct), violations=viols, sample=sample)


def refusal_task(_t):
    """the server refuses the AUTHENTICATE command itself (before any challenge): one attempt with the one chosen mechanism, then connect
    fails - no other mechanism is tried with the caller's credentials"""
    viols = []
    n = 0
    for announced in sasl_lists():
        want = expected_mech(announced, None)
        if want is None:
            continue
        for action in ("NO", "NO-BARE"):
            caps = [(b"IMPLEMENTATION", b"x"), (b"SASL", " ".join(announced).encode()), (b"SIEVE", b"fileinto")]
            srv = refms.RefServer(caps_plain=caps, faults=[("AUTHSTART", 0, action)])
            srv.digest_users = {"user": "pass"}
            s = wire.open_session(srv)
            o = s.connect_outcome
            n += 1
            sent = [a[0][1].decode().upper() for v, a in srv.log if v == "AUTHENTICATE"]
            bad = None
            if o.kind in ("livelock", "hang"):
                bad = ("no-return", "connect does not return")
            elif o.kind == "exc" and o.exc_type != "Error":
                bad = ("exception:%s" % o.exc_type, "AUTHENTICATE %s refused: connect raised %s" % (want, o.brief()))
            elif sent != [want]:
                bad = ("second-attempt", "AUTHENTICATE %s was refused; commands sent: %r" % (want, sent))
            elif o.kind == "ret" and o.value is True:
                bad = ("verdict", "the only AUTHENTICATE was refused, connect returned True")
            if bad:
                viols.append({"property": "C16", "engine": "wire", "signature": ["C16", want, "refused-at-start", bad[0]],
                              "what": "announced %r, %s to AUTHENTICATE: %s" % (announced, action, bad[1]), "case": {"refusal": True},
                              "witness": "SASL %r %s at AUTHENTICATE" % (announced, action), "observed": o.brief()})
    return dict(n=n, distinct=n, violations=viols, sample=None)


def tls_task(_t):
    """connect(starttls=True): the mechanism must come from the list announced AFTER the handshake - also when that list is missing
    or empty (then nothing qualifies and no credentials may be sent)"""
    viols = []
    n = 0
    pres = [["PLAIN"], ["LOGIN", "PLAIN"], ["DIGEST-MD5", "PLAIN"], []]
    posts = [None, [], ["X-OTHER"], ["LOGIN"], ["PLAIN", "LOGIN"], ["PLAIN-CLIENTTOKEN"]]
    for pre in pres:
        for post in posts:
            for authmech in (None, "PLAIN", "LOGIN"):
                caps_pre = [(b"IMPLEMENTATION", b"x"), (b"SASL", " ".join(pre).encode()), (b"SIEVE", b"fileinto")]
                caps_post = [(b"IMPLEMENTATION", b"x")] + ([(b"SASL", " ".join(post).encode())] if post is not None else []) + [(b"SIEVE", b"fileinto")]
                srv = refms.RefServer(caps_plain=caps_pre, caps_tls=caps_post, starttls=True)
                s = wire.open_session(srv, starttls=True, authmech=authmech)
                o = s.connect_outcome
                n += 1
                want = expected_mech(post, authmech)
                sent = [a for v, a in srv.log if v == "AUTHENTICATE"]
                bad = None
                if o.kind in ("livelock", "hang"):
                    bad = ("no-return", "connect does not return")
                elif want in (None, "NOSASL"):
                    if sent:
                        bad = ("credentials-without-mechanism", "post-TLS list %r: AUTHENTICATE %r was sent" % (post, sent[0][0][1]))
                    elif o.kind == "ret" and o.value is True:
                        bad = ("connect-true-without-auth", "connect returned True without authenticating")
                elif not sent or sent[0][0][1].decode().upper() != want:
                    bad = ("wrong-mechanism", "post-TLS list %r, authmech %r: used %r, expected %s" % (post, authmech, sent and sent[0][0][1], want))
                elif not (o.kind == "ret" and o.value is True):
                    bad = ("verdict", "server said OK, connect gave %s" % o.brief())
                if bad is None and srv.violations:
                    bad = ("protocol-violation", srv.violations[0])
                if bad:
                    viols.append({"property": "C16", "engine": "wire", "signature": ["C16", "starttls", "pre=%s post=%s" % ("+".join(pre) or "-", "none" if post is None else ("+".join(post) or "empty")), bad[0]],
                                  "what": "greeting announces %r, after STARTTLS %r, authmech %r: %s" % (pre, post, authmech, bad[1]),
                                  "case": {"tls": True}, "witness": "pre=%r post=%r authmech=%r" % (pre, post, authmech), "observed": o.brief()})
    return dict(n=n, distinct=n, violations=viols, sample=None)


def len_task(t):
    """credential length ladder: every login / password length in a window for every implemented mechanism (encoders that fold,
    chunk or cap their output show at some length)"""
    mech, lo, hi = t
    viols = []
    n = 0
    for L in range(lo, hi):
        for cred in (("user", "p" * L, ""), ("l" * max(L, 1), "pass", ""), ("user", "é" * L, "z" * (L % 7))):
            r = one([mech], mech, cred, True)
            n += 1
            if r:
                viols.append({"property": "C16", "engine": "wire", "signature": ["C16", mech, "length-ladder", r[0]],
                              "what": "%s with credentials of lengths %r: %s" % (mech, tuple(len(x) for x in cred), r[1][:200]),
                              "case": {"ladder": [mech, L]}, "witness": "%s login/password/authzid lengths %r" % (mech, tuple(len(x) for x in cred)),
                              "observed": r[1][:160]})
    return dict(n=n, distinct=n, violations=viols, sample=None)


def run(tier, seed):
    lists = sasl_lists() + [None]
    chunks = [lists[i::16] for i in range(16)]
    res = pool.run_tasks("checks.c16:task", [c for c in chunks if c])
    res += pool.run_tasks("checks.c16:tls_task", [0], force_pool=True)
    res += pool.run_tasks("checks.c16:refusal_task", [0], force_pool=True)
    top = 160 if tier == "quick" else 1300
    res += pool.run_tasks("checks.c16:len_task", [(m, lo, min(top, lo + 20)) for m in IMPLEMENTED for lo in range(0, top, 20)])
    n = sum(r["n"] for r in res)
    viols = []
    for r in res:
        viols.extend(r["violations"])
    cov = dict(states=len(lists) * len(AUTHMECHS), transitions=n, traces_validated_against_impl=n, evaluations=n,
               distinct_nontrivial=sum(r["distinct"] for r in res),
               rule="E3: %d announced SASL lists (every subset of %r, two orders, plus missing capability) x authmech in %r x %d credential triples x "
                    "server verdict OK/NO; oracle: selection rule of the property, payload decoded per RFC 4616 / LOGIN / RFC 7628 / RFC 2831, "
                    "connect True iff OK" % (len(lists), MECHS, AUTHMECHS, len(CREDS)),
               samples=[r["sample"] for r in res if r["sample"]][:4] or [{"note": "none"}], exhaustive=True)
    return dict(violations=viols, coverage=cov, harness_errors=[],
                assumptions=["OAUTHBEARER: the client documents `login` as the identity carried in the gs2 header's a= field",
                             "DIGEST-MD5 reference response recomputed per RFC 2831 with the server's fixed nonce/realm"])


def replay(payload):
    c = payload["case"]
    if c.get("refusal"):
        return [v for v in refusal_task(0)["violations"] if v["signature"] == payload["signature"]]
    if c.get("tls"):
        return [v for v in tls_task(0)["violations"] if v["signature"] == payload["signature"]]
    if c.get("ladder"):
        return len_task((c["ladder"][0], c["ladder"][1], c["ladder"][1] + 1))["violations"]
    # realm-bearing and realm-less challenges alternate in one process, as in the exploration
    one(c["announced"], c["authmech"], CREDS[c["cred"]], True, "ref")
    r = one(c["announced"], c["authmech"], CREDS[c["cred"]], c["verdict"], c.get("realm", "ref"), bool(c.get("final_sasl")))
    if r:
        sig = list(payload["signature"])
        sig[3] = r[0]
        return [{"property": "C16", "signature": sig, "what": r[1], "witness": payload.get("witness"), "observed": r[1][:160]}]
    return []
