"""C19 — What you put into a filter is what you read back.

E3: supported condition/action forms x values over an alphabet with commas, spaces, brackets and non-ASCII;
read back on the original set, on the disabled filter, and on the set reloaded from its rendering."""
import itertools

from mc import pool, seams, factory_engine as F

CHARS = ["a", ",", " ", "[", "]", "é", "b", "\"", "\\", "\r\n", "\n"]


# condition forms whose values the factory writes as members of a list: the "already quoted" convention of scalar string arguments
# does not apply to them, a value that starts (and ends) with a double quote is a value like any other
LIST_RENDERED = {"exists1", "exists3", "notexists2", "exists-repeat", "envelope-repeat", "envelope:is", "envelope:lists", "envelope:notis", "address:lists",
                 "address:str+list", "body:raw", "body:text2", "body:raw-not", "currentdate:is", "currentdate:value", "currentdate:notis", "dup:[A,B,A]"}


def values(maxlen, leading_quote=False):
    out = []
    for n in range(1, maxlen + 1):
        for tup in itertools.product(CHARS, repeat=n):
            v = "".join(tup)
            if v != v.strip():
                continue  # values surrounded by white space are not in the claim's alphabet
            if v.startswith('"') and not leading_quote:
                continue  # taken by the factory as already quoted (the exclusion stated with C06)
            out.append(v)
    if leading_quote:
        out += ['"unsubscribe"', '"a, b"', '"\\"']
    # long values: every length 2^k - 1, 2^k, 2^k + 1
    unit = 'a, ]b["é\\'
    for k in range(5, 11 if maxlen <= 3 else 15):
        for L in (2 ** k - 1, 2 ** k, 2 ** k + 1):
            out.append((unit * (L // len(unit) + 1))[:L].rstrip())
    return out + ["user@example.org", "INBOX.Lists, misc", "a, b", "[x]", "x]y[", "été,hiver", "text: see attachment", "text:\nhello\n.\n", "Text:x"]


COND_FORMS = [
    ("header:is", lambda V: [("Subject", ":is", V)]),
    ("header:contains", lambda V: [("Subject", ":contains", V)]),
    ("header:matches", lambda V: [("X-H", ":matches", V)]),
    ("header:notis", lambda V: [("Subject", ":notis", V)]),
    ("header:notcontains", lambda V: [("Subject", ":notcontains", V)]),
    ("header:notmatches", lambda V: [("Subject", ":notmatches", V)]),
    ("exists1", lambda V: [("exists", V)]),
    ("exists3", lambda V: [("exists", "list-help", V, "list-owner")]),
    ("notexists2", lambda V: [("notexists", V, "h2")]),
    ("exists-repeat", lambda V: [("exists", V, "X-Virus", V)]),
    ("envelope-repeat", lambda V: [("envelope", ":is", ["From", "From"], [V, "k", V])]),
    ("size:over", lambda V: [("size", ":over", "100k")]),
    ("size:under", lambda V: [("size", ":under", "5")]),
    ("envelope:is", lambda V: [("envelope", ":is", ["From"], [V])]),
    ("envelope:lists", lambda V: [("envelope", ":contains", ["From", "To"], [V, "k"])]),
    ("envelope:notis", lambda V: [("envelope", ":notis", ["From"], [V])]),
    ("address:str", lambda V: [("address", ":is", "From", V)]),
    ("address:lists", lambda V: [("address", ":contains", ["From", "To"], [V, "k"])]),
    ("address:notis", lambda V: [("address", ":notis", "From", V)]),
    # one argument a list, the other a plain string (each must come back in the kind it was given)
    ("address:list+str", lambda V: [("address", ":is", ["From", "Reply-To"], V)]),
    ("address:str+list", lambda V: [("address", ":notcontains", "From", [V, "k"])]),
    ("address:list1+str", lambda V: [("address", ":contains", ["From"], V)]),
    ("body:raw", lambda V: [("body", ":raw", ":contains", V)]),
    ("body:text2", lambda V: [("body", ":text", ":contains", V, "k")]),
    ("body:raw-not", lambda V: [("body", ":raw", ":notcontains", V)]),
    ("currentdate:is", lambda V: [("currentdate", ":zone", "+0100", ":is", "date", V)]),
    ("currentdate:value", lambda V: [("currentdate", ":zone", "+0100", ":value", "gt", "date", V)]),
    ("currentdate:notis", lambda V: [("currentdate", ":zone", "+0100", ":notis", "date", V)]),
    ("two:header+exists", lambda V: [("Subject", ":contains", V), ("exists", "X-Spam")]),
    ("two:not+size", lambda V: [("Sender", ":notis", V), ("size", ":over", "1M")]),
    ("three:mixed", lambda V: [("notexists", "X-A"), ("To", ":matches", V), ("body", ":raw", ":notcontains", "z")]),
    ("dup:[A,A]", lambda V: [("Subject", ":is", V), ("Subject", ":is", V)]),
    ("dup:[A,B,A]", lambda V: [("exists", V), ("size", ":over", "1k"), ("exists", V)]),
    ("dup:[notA,B,notA]", lambda V: [("Subject", ":notcontains", V), ("exists", "X"), ("Subject", ":notcontains", V)]),
]
ACTION_FORMS = [
    ("fileinto", lambda V: [("fileinto", V)]),
    ("fileinto:copy", lambda V: [("fileinto", ":copy", V)]),
    ("fileinto:create:copy", lambda V: [("fileinto", ":create", ":copy", V)]),
    ("redirect", lambda V: [("redirect", V)]),
    ("redirect:copy", lambda V: [("redirect", ":copy", V)]),
    ("reject", lambda V: [("reject", V)]),
    ("keep", lambda V: [("keep",)]),
    ("discard+stop", lambda V: [("discard",), ("stop",)]),
    ("fileinto+stop", lambda V: [("fileinto", V), ("stop",)]),
    ("setflag", lambda V: [("setflag", V)]),
    ("vacation", lambda V: [("vacation", ":mime", V)]),
]


def norm_cond(c):
    return tuple(list(x) if isinstance(x, (list, tuple)) else x for x in c)


def norm_action(a):
    return (a[0], tuple(sorted(str(x) for x in a[1:])))


def readback(fs, name):
    return (fs.get_filter_conditions(name), fs.get_filter_actions(name), fs.get_filter_matchtype(name))


def compare(got, conds, acts, mt):
    gc, ga, gm = got
    if gm != mt:
        return ("matchtype", "match type %r, supplied %r" % (gm, mt))
    if gc is None or [norm_cond(c) for c in gc] != [norm_cond(c) for c in conds]:
        return ("conditions", "conditions read back as %r, supplied %r" % (gc, conds))
    if ga is None or [norm_action(a) for a in ga] != [norm_action(a) for a in acts]:
        return ("actions", "actions read back as %r, supplied %r" % (ga, acts))
    return None


def value_class(V):
    cl = []
    if "," in V:
        cl.append("comma")
    if " " in V:
        cl.append("space")
    if "[" in V or "]" in V:
        cl.append("bracket")
    if any(ord(c) > 127 for c in V):
        cl.append("non-ascii")
    return "+".join(cl) or "plain"


def scribble(x):
    """the caller edits what a read-back returned (in place, at every level that is a list)"""
    if isinstance(x, (list, tuple)):
        for y in x:
            scribble(y)
    if isinstance(x, list):
        x.append("SCRIBBLE")


NEIGHBOUR_OPS = ("nb-update", "nb-rename", "nb-remove", "nb-disable", "nb-cycle", "nb-replace")
MARKER_SETS = [None, ("# [Filter] ", "# (Desc)+ "), ("#N ", "#D ")]


def one(ns, conds, acts, mt, via_update=False, markers=None):
    """-> None | (stage, clause, text)"""
    kw = dict(filter_name_pretext=markers[0], filter_desc_pretext=markers[1]) if markers else {}
    fs = F.new_set(ns, **kw)
    try:
        if via_update == "disabled-rename":
            fs.addfilter("other", [("X", ":is", "y")], [("keep",)])
            fs.addfilter("g", [("X", ":is", "y")], [("keep",)])
            fs.disablefilter("g")
            fs.updatefilter("g", "f", list(conds), list(acts), mt)
        elif via_update == "same-def-other-matchtype":
            # the filter already has exactly these conditions and actions, under the other match type
            fs.addfilter("f", list(conds), list(acts), "allof" if mt == "anyof" else "anyof")
            fs.updatefilter("f", "f", list(conds), list(acts), mt)
        elif isinstance(via_update, str) and via_update.startswith("nb-"):
            # the filter lives between two neighbours, and the set is edited elsewhere after it was built: nothing done to another
            # filter may change what is read back from this one (on the set itself and after a reload)
            fs.addfilter("n1", [("X", ":is", "y")], [("fileinto", ":copy", "N")])
            fs.addfilter("f", list(conds), list(acts), mt)
            fs.addfilter("n2", [("size", ":over", "1k")], [("stop",)])
            op = via_update[3:]
            if op == "update":
                fs.updatefilter("n1", "n1", [("Subject", ":contains", "y")], [("keep",)])
            elif op == "rename":
                fs.updatefilter("n2", "n3", [("Subject", ":contains", "y")], [("keep",)], "allof")
            elif op == "remove":
                fs.removefilter("n1")
            elif op == "disable":
                fs.disablefilter("n2")
            elif op == "cycle":
                fs.disablefilter("n1")
                fs.enablefilter("n1")
                fs.movefilter("f", "down")
                fs.movefilter("n2", "down")
            elif op == "replace":
                fs.replacefilter("n1", fs.getfilter("n2"), "n4", "moved")
            else:
                raise AssertionError(op)
        elif via_update:
            fs.addfilter("f", [("X", ":is", "y")], [("keep",)])
            fs.updatefilter("f", "f", list(conds), list(acts), mt)
        else:
            fs.addfilter("f", list(conds), list(acts), mt)
    except Exception as e:  # noqa
        return ("build", "exception:%s" % type(e).__name__, "building raised %s: %s" % (type(e).__name__, str(e)[:80]))
    stages = []
    stages.append(("original", lambda: readback(fs, "f")))

    def disabled():
        fs.disablefilter("f")
        try:
            return readback(fs, "f")
        finally:
            fs.enablefilter("f")

    stages.append(("disabled", disabled))

    def reloaded():
        text = F.render(fs)
        p = ns.parser.Parser()
        if not p.parse(text):
            raise ValueError("rendering rejected: %s" % p.error)
        fs2 = F.new_set(ns, **kw)
        fs2.from_parser_result(p)
        return readback(fs2, "f")

    stages.append(("reloaded", reloaded))
    for stage, fn in stages:
        try:
            got = fn()
        except Exception as e:  # noqa
            return (stage, "exception:%s" % type(e).__name__, "read-back on the %s set raised %s: %s" % (stage, type(e).__name__, str(e)[:80]))
        bad = compare(got, conds, acts, mt)
        if bad:
            return (stage, bad[0], "%s set: %s" % (stage, bad[1]))
        if stage in ("original", "reloaded"):
            # what a call returned belongs to the caller: editing it must not change what the next read-back (of any set) returns
            scribble(got[0])
            scribble(got[1])
            try:
                got = fn() if stage == "original" else readback(fs, "f")
            except Exception as e:  # noqa
                return (stage + "-reread", "exception:%s" % type(e).__name__, "second read-back raised %s: %s" % (type(e).__name__, str(e)[:80]))
            bad = compare(got, conds, acts, mt)
            if bad:
                return (stage + "-reread", bad[0], "read again after the caller edited the previous result in place: %s" % bad[1])
    return None


def form_task(t):
    i, is_action, maxlen = t
    ns = seams.load()
    name, mk = (ACTION_FORMS if is_action else COND_FORMS)[i]
    viols = []
    n = 0
    distinct = set()
    sample = None
    vals = values(maxlen, leading_quote=(not is_action and name in LIST_RENDERED))
    if name in ("size:over", "size:under", "keep", "discard+stop"):
        vals = ["x"]
    for V in vals:
        for mt in ("anyof", "allof"):
            for via_update in (False, True, "disabled-rename", "same-def-other-matchtype") + NEIGHBOUR_OPS if V in ("a", "a, b") else (False,):
                if is_action:
                    conds, acts = [("Subject", ":is", "x")], mk(V)
                else:
                    conds, acts = mk(V), [("fileinto", "Box")]
                for markers in (MARKER_SETS if V in ("a", "a, b") and via_update is False else (None,)):
                    n += 1
                    bad = one(ns, conds, acts, mt, via_update, markers)
                    distinct.add((value_class(V), mt, bad[:2] if bad else None))
                    if bad:
                        viols.append({"property": "C19", "engine": "factory", "signature": ["C19", name, value_class(V), bad[0] + ":" + bad[1]],
                                      "what": "%s value %r (%s): %s" % (name, V, mt, bad[2]),
                                      "case": {"i": i, "is_action": is_action, "value": V, "mt": mt, "via_update": via_update, "markers": list(markers) if markers else None},
                                      "witness": "%s value=%r matchtype=%s" % (name, V, mt), "observed": bad[2][:200]})
                    elif sample is None and "," in V:
                        sample = {"form": name, "value": V, "conditions": repr(conds), "actions": repr(acts)}
    return dict(n=n, distinct=len(distinct), violations=viols, sample=sample)


def run(tier, seed):
    maxlen = 3 if tier == "quick" else 4
    tasks = [(i, False, maxlen) for i in range(len(COND_FORMS))] + [(i, True, maxlen) for i in range(len(ACTION_FORMS))]
    res = pool.run_tasks("checks.c19:form_task", tasks)
    n = sum(r["n"] for r in res)
    viols = []
    for r in res:
        viols.extend(r["violations"])
    cov = dict(states=len(tasks), transitions=n, traces_validated_against_impl=3 * n, evaluations=3 * n, distinct_nontrivial=sum(r["distinct"] for r in res),
               rule="E3: %d condition forms + %d action forms x every string of length <= %d over %r (not surrounded by white space) + samples x anyof/allof x "
                    "addfilter/updatefilter; get_filter_conditions/actions/matchtype on the original set, on the disabled filter and on the set reloaded from "
                    "its rendering must equal the supplied tuples (actions: name + multiset of positional strings and value-less tags)" % (
                        len(COND_FORMS), len(ACTION_FORMS), maxlen, CHARS),
               samples=[r["sample"] for r in res if r.get("sample")][:5] or [{"note": "none"}], exhaustive=True)
    return dict(violations=viols, coverage=cov, harness_errors=[],
                assumptions=["numbers are supplied as strings; list-valued header operands and integer arguments are exercised by C06 only"])


def replay(payload):
    ns = seams.load()
    c = payload["case"]
    name, mk = (ACTION_FORMS if c["is_action"] else COND_FORMS)[c["i"]]
    V = c["value"]
    if c["is_action"]:
        conds, acts = [("Subject", ":is", "x")], mk(V)
    else:
        conds, acts = mk(V), [("fileinto", "Box")]
    bad = one(ns, conds, acts, c["mt"], c.get("via_update", False), tuple(c["markers"]) if c.get("markers") else None)
    if bad:
        sig = list(payload["signature"])
        sig[3] = bad[0] + ":" + bad[1]
        return [{"property": "C19", "signature": sig, "what": bad[2], "witness": payload.get("witness"), "observed": bad[2][:200]}]
    return []
