"""C15 — The client's view of the server stays correct over whole sessions.

E1 over operation histories (state = reference server store + active pointer, dedup) combined with E2 deviations
(reply encodings, NO outcomes the state permits, recv cuts) bounded per history."""
from mc import pool, wire, refms

BODY1 = "keep;\r\n"
BODY2 = "# c\r\nif true {\r\n  stop;\r\n}\r\n"
BODY3 = "# a\u2028b\x0cc\x85d\r\nkeep;\r\n"
# a name that fits a quoted string (1024 octets) only before its quotes are escaped
LONGQ = 'archive "2024" ' + "x" * 1009
EVENTS = [
    ("listscripts",), ("getscript", "a"), ("getscript", "b"), ("putscript", "a", BODY1), ("putscript", "b", BODY2), ("putscript", "b", BODY3),
    ("putscript", "a", BODY2), ("deletescript", "a"), ("deletescript", "b"), ("setactive", "a"), ("setactive", "b"),
    ("setactive", ""), ("renamescript", "a", "b"), ("renamescript", "b", "a"), ("havespace", "a", 10), ("checkscript", BODY1),
    ("capability",), ("putscript", LONGQ, BODY1), ("deletescript", LONGQ),
    # the same Client object connects again (to a server holding the same scripts): successfully, or asking for STARTTLS from a
    # server that does not offer it - after which the session is not authenticated and nothing may reach the server
    ("reconnect", "ok"), ("reconnect", "starttls-unavailable"),
]
INITIAL = [
    ({}, None),
    ({"a": BODY1.encode()}, "a"),
    ({"a": BODY2.encode(), "b": BODY1.encode()}, "b"),
    ({"a": BODY3.encode("utf-8")}, None),
    # non-ASCII script names in reply lines; this store is read by a client created with debug=True (its trace prints every chunk)
    ({"a": BODY1.encode(), "\u00e9t\u00e9 \u20ac": BODY2.encode()}, "\u00e9t\u00e9 \u20ac"),
]
INITIAL.append(({"a": b"", "c": b"\r\n"}, None))  # an empty script is a valid script


def _exact_listing_store(target=4096):
    """a store whose default LISTSCRIPTS reply is exactly `target` octets: a recv() that fills the client's read size to the brim with
    nothing behind it"""
    def reply_len(k):
        srv = refms.RefServer(store={"a": b"keep;\r\n", "f" * k: b"stop;\r\n"}, active="a")
        srv.authenticated = True
        srv.out = b""
        srv.do_LISTSCRIPTS([])
        return len(srv.out)
    k = 1000
    for _ in range(4):
        k += target - reply_len(k)
    assert reply_len(k) == target, reply_len(k)
    return {"a": b"keep;\r\n", "f" * k: b"stop;\r\n"}


INITIAL.append((_exact_listing_store(), "a"))
INITIAL.append(({"holiday ": b"keep;\r\n", " old": b"stop;\r\n", "a": b"discard;\r\n"}, "holiday "))  # blanks at the edges of a name are part of the name
DEBUG_STORES = {4}
CUTS = [1, 7, "cr1", "crl"]  # thorough adds 2 and -1 (see run)


def norm_lines(b):
    s = b.decode("utf-8", "replace") if isinstance(b, bytes) else b
    lines = s.replace("\r\n", "\n").replace("\r", "\n").split("\n")
    while lines and lines[-1] == "":
        lines.pop()
    return lines


def expected(ev, pre_store, pre_active, srv, nlog0):
    """what the client must report, from the reference server's own answers to this call's commands"""
    op = ev[0]
    cmds = srv.log[nlog0:]
    statuses = srv.status_log[len(srv.status_log) - len(cmds):] if cmds else []
    last_ok = bool(statuses) and statuses[-1] == b"OK"
    if op == "listscripts":
        return ("listing", srv.active, sorted(n for n in srv.order if n != srv.active)) if last_ok else ("value", None)
    if op == "getscript":
        return ("lines", norm_lines(srv.store[ev[1]])) if last_ok else ("value", None)
    if op == "capability":
        return ("bytes", srv.capability_lines()) if last_ok else ("value", None)
    return ("value", True if last_ok else False)


def implied_state(ev, o, srv):
    """a reported success says something about the server's state: it must be true there (None = fine)"""
    if not (o.kind == "ret" and o.value is True):
        return None
    op = ev[0]
    if op == "putscript" and norm_lines(srv.store.get(ev[1], b"\0")) != norm_lines(ev[2]):
        return "putscript reported success but the server does not hold that content under %r (it has %r)" % (ev[1][:30], sorted(n[:30] for n in srv.store))
    if op == "deletescript" and ev[1] in srv.store:
        return "deletescript reported success but %r still exists" % ev[1][:30]
    if op == "setactive" and (srv.active or "") != ev[1]:
        return "setactive(%r) reported success but the active script is %r" % (ev[1][:30], srv.active)
    if op == "renamescript" and (ev[1] in srv.store or ev[2] not in srv.store):
        return "renamescript reported success but the store is %r" % sorted(n[:30] for n in srv.store)
    return None


def matches(exp, o):
    if o.kind != "ret":
        return False
    kind = exp[0]
    v = o.value
    if kind == "value":
        return v is exp[1] or v == exp[1] and type(v) is type(exp[1])
    if kind == "listing":
        return isinstance(v, tuple) and len(v) == 2 and v[0] == exp[1] and sorted(v[1] or []) == exp[2]
    if kind == "lines":
        return isinstance(v, str) and norm_lines(v) == exp[1]
    if kind == "bytes":
        return v == exp[1]
    return False


class LoggingServer(refms.RefServer):
    def __init__(self, *a, **k):
        refms.RefServer.__init__(self, *a, **k)
        self.status_log = []

    def emit(self, b):
        refms.RefServer.emit(self, b)

    def handle(self, verb, args):
        before = len(self.out)
        mark = self.out
        refms.RefServer.handle(self, verb, args)
        new = self.out[len(mark):] if self.out.startswith(mark) else self.out
        # final status atom of the reply to this command
        code = None
        for line in new.split(b"\r\n"):
            for c in (b"OK", b"NO", b"BYE"):
                if line.startswith(c + b" ") or line == c:
                    code = c
        self.status_log.append(code)


SHADOW_STORE = {"z": b"# shadow\r\nstop;\r\n", "a": b"discard;\r\n"}


def shadow_step(sh):
    """a second Client object with its own server in the same process, used between the steps of the history under test:
    nothing the first client does may show in what the second one reports (and the other way round)"""
    s2, srv2 = sh
    o = s2.call("listscripts")
    if not (o.kind == "ret" and o.value == ("z", ["a"])):
        return "the other client's listscripts gave %s" % o.brief()
    o = s2.call("getscript", "z")
    if not (o.kind == "ret" and isinstance(o.value, str) and norm_lines(o.value) == norm_lines(SHADOW_STORE["z"])):
        return "the other client's getscript gave %s" % o.brief()
    if srv2.violations:
        return "the other client's server saw %s" % srv2.violations[0]
    return None


def run_history(init_i, version, hist, prefix, seg_choice, shadow=False):
    store, active = INITIAL[init_i]
    ch = refms.Choices(prefix)
    srv = LoggingServer(ch=ch, store=store, active=active, version=version)
    s = wire.open_session(srv, debug=(init_i in DEBUG_STORES))
    sh = None
    if shadow:
        srv2 = refms.RefServer(store=dict(SHADOW_STORE), active="z", version=True)
        sh = (wire.open_session(srv2, login="other", password="secret2"), srv2)
    if seg_choice:
        s.cur_socket().set_seg(("choice", CUTS + ([2, -1] if seg_choice is not True and seg_choice >= 2 else [])))
    bad = None
    step = -1
    authed = True
    for step, ev in enumerate(hist):
        if ev[0] == "reconnect":
            new = LoggingServer(ch=ch, store={k: srv.store[k] for k in srv.order}, active=srv.active, version=version)
            s.env["next_server"] = new
            if ev[1] == "ok":
                o = s.call("connect", "user", "pass")
                authed = True
                if not (o.kind == "ret" and o.value is True):
                    bad = ("result", "second connect gave %s" % o.brief())
            else:
                o = s.call("connect", "user", "pass", starttls=True)
                authed = False
                if not (o.kind == "exc" and o.exc_type == "Error"):
                    bad = ("result", "connect(starttls=True) to a server without STARTTLS gave %s" % o.brief())
            srv = new
            if seg_choice:
                s.cur_socket().set_seg(("choice", CUTS + ([2, -1] if seg_choice is not True and seg_choice >= 2 else [])))
            if bad:
                break
            continue
        pre_store, pre_active = dict(srv.store), srv.active
        nlog0 = len(srv.log)
        o = s.call(ev[0], *ev[1:])
        srv.leftover_violation()
        if not authed:
            if ev[0] == "capability":
                pass  # CAPABILITY is legal before authentication
            elif len(srv.log) != nlog0:
                bad = ("unauthenticated-command", "%s reached the server on a connection that never authenticated: %r" % (ev[0], srv.log[nlog0:][:1]))
            elif not (o.kind == "exc" and o.exc_type == "Error"):
                bad = ("result", "%s without an authenticated session gave %s" % (ev[0], o.brief()))
            if bad:
                break
            continue
        if ev[0] == "renamescript" and not version:
            # emulated: judged on the store (C14's rule), success iff old gone and new holds the content
            ok_shape = (o.kind == "ret" and o.value in (True, False)) or (o.kind == "exc" and o.exc_type == "Error")
            if not ok_shape:
                bad = ("result", "emulated rename gave %s" % o.brief())
            elif o.kind == "ret" and o.value is True and not (ev[1] not in srv.store and ev[2] in srv.store):
                bad = ("result", "emulated rename returned True but the store is %r" % sorted(srv.store))
            elif o.kind == "ret" and o.value is False and ev[1] in pre_store and ev[2] not in pre_store and ev[1] != ev[2] and \
                    all(st == b"OK" for st in srv.status_log[len(srv.status_log) - (len(srv.log) - nlog0):]):
                # the rename was possible and the server refused nothing: a reported failure does not describe the server
                bad = ("result", "emulated rename of %r reported failure although every command it sent (%r) was answered OK" % (
                    ev[1], [v for v, _a in srv.log[nlog0:]]))
            for name, content in pre_store.items():
                if name != ev[1] and (name not in srv.store or srv.store[name] != content):
                    bad = ("store", "emulated rename modified bystander %r" % name)
        else:
            exp = expected(ev, pre_store, pre_active, srv, nlog0)
            if o.kind in ("livelock", "hang"):
                bad = ("no-return", "%s does not return" % ev[0])
            elif not matches(exp, o):
                bad = ("result", "%s%r returned %s, the server's answer means %r" % (ev[0], tuple(x if len(str(x)) < 12 else "body" for x in ev[1:]), o.brief(), exp))
        if bad is None:
            why = implied_state(ev, o, srv)
            if why:
                bad = ("state", why)
        if bad is None and isinstance(o.value, tuple) and len(o.value) == 2 and isinstance(o.value[1], list):
            o.value[1].append("SCRIBBLE")  # what a call returned belongs to the caller
        if bad is None and sh is not None:
            why = shadow_step(sh)
            if why:
                bad = ("other-client", why)
        if bad is None and o.leftover:
            bad = ("unread-bytes", "%d bytes left unread after %s" % (o.leftover, ev[0]))
        if bad is None and srv.violations:
            bad = ("protocol-violation", srv.violations[0])
        if bad:
            break
    return bad, step, srv, ch


def explore_history(init_i, version, hist, bound):
    """E2 over the choice points of one history; returns (executions, violations, server state after the default run)"""
    from mc import wire_engine as W

    viols = []
    final = {}

    def run(prefix):
        bad, step, srv, ch = run_history(init_i, version, hist, prefix, seg_choice=bound, shadow=not prefix)
        if not prefix:
            final["state"] = (tuple((n, srv.store[n]) for n in sorted(srv.store)), srv.active, bool(srv.authenticated))
            final["bad"] = bad
        return ch.trace, (bad, step, ch)

    def check(obs, trace):
        bad, step, ch = obs
        if bad:
            devs = [(n, c) for n, k, c in trace if c]
            viols.append((bad, step, devs, [c for _n, _k, c in trace]))

    runs, capped = W.explore(run, bound, check)
    return runs, viols, final


def ev_label(ev):
    if ev[0] == "reconnect":
        return "reconnect(%s)" % ev[1]
    return "%s(%s)" % (ev[0], ",".join(("longq" if x == LONGQ else "body") if isinstance(x, str) and len(x) > 3 else repr(x) for x in ev[1:]))


def task(t):
    init_i, version, depth, bound, first = t
    seen = set()
    frontier = [()]
    n = 0
    states = 0
    viols = []
    distinct = set()
    sample = None
    for d in range(1, depth + 1):
        nxt = []
        for h in frontier:
            evs = EVENTS if (d > 1 or first is None) else [EVENTS[first]]
            for ev in evs:
                if ev[0] == "checkscript" and not version:
                    continue  # documented: refused locally (NotImplementedError) when the server lacks VERSION
                h2 = h + (ev,)
                runs, vs, final = explore_history(init_i, version, h2, bound)
                n += runs
                for bad, step, devs, choices in vs:
                    hist_l = [ev_label(e) for e in h2[:step + 1]]
                    dev_l = "+".join(sorted({nm for nm, _c in devs})) or "default"
                    viols.append({"property": "C15", "engine": "wire",
                                  "signature": ["C15", ev_label(h2[step]).split("(")[0] + ("" if version or h2[step][0] != "renamescript" else "-emulated"), dev_l, bad[0]],
                                  "what": "history %s (initial store %d, VERSION=%s), deviations %r: %s" % (" ; ".join(hist_l), init_i, version, devs, bad[1]),
                                  "case": {"bound": bound, "init": init_i, "version": version, "history": [list(e) for e in h2[:step + 1]], "choices": choices},
                                  "witness": "init=%d version=%s %s deviations=%r" % (init_i, version, " ; ".join(hist_l), devs), "observed": bad[1][:160]})
                key = final.get("state")
                distinct.add((key, ev[0]))
                if final.get("bad") is None and key not in seen:
                    seen.add(key)
                    states += 1
                    nxt.append(h2)
                    if sample is None and d >= 2:
                        sample = {"history": [ev_label(e) for e in h2], "server_state": repr(key)[:160]}
        frontier = nxt
    return dict(n=n, states=states, distinct=len(distinct), violations=viols, sample=sample)


# names whose wire form is k octets longer than their character count (multi-octet characters, escaped quotes and backslashes),
# with and without the word the server puts after the active script's name
SURPLUS = ([""] + ["\u00e9" * k for k in (1, 2, 3, 5, 6, 7, 8, 16)] + ['"' * k for k in (1, 2, 6, 7, 8, 16)] + ["\\" * k for k in (1, 7, 8)]
           + ["\u20ac" * k for k in (1, 3, 4, 8)] + ["\U0001F600" * k for k in (1, 2, 3)] + ['\u00e9"\\\u20ac' * k for k in (1, 2, 3)])
TAILS = ["", " ACTIVE", "ACTIVE", " rules-active", " Active", ' "ACTIVE"', " ACTIVE "]


def names_task(t):
    """E3: listscripts over stores {a, <name>} for every name = SURPLUS x TAILS, with nothing / a / the name active, names quoted or
    sent as literals: the reported active script and list must be the server's"""
    lo, hi = t
    names = [p + q for p in SURPLUS for q in TAILS if p + q][lo:hi]
    viols = []
    n = 0
    distinct = set()
    for nm in names:
        for active in (None, "a", nm):
            for lit in (0, 1):
                for order in ((nm, "a"), ("a", nm)):
                    srv = refms.RefServer(ch=refms.FixedChoices({"list-name-literal": lit}), store={k: b"keep;\r\n" for k in order}, active=active)
                    s = wire.open_session(srv)
                    o = s.call("listscripts")
                    n += 1
                    want = (active, sorted(x for x in order if x != active))
                    ok = o.kind == "ret" and isinstance(o.value, tuple) and len(o.value) == 2 and o.value[0] == want[0] and sorted(o.value[1] or []) == want[1]
                    distinct.add((len(nm.encode("utf-8")) - len(nm), active is None, active == nm, lit, ok))
                    if not ok:
                        viols.append({"property": "C15", "engine": "wire",
                                      "signature": ["C15", "listscripts", "names:" + ("literal" if lit else "quoted"), "wrong-listing" if o.kind == "ret" else (o.exc_type or o.kind)],
                                      "what": "server holds %r with %r active; listscripts gives %s" % (list(order), active, o.brief()[:160]),
                                      "case": {"names_case": True, "name": nm, "active": active, "lit": lit, "order": list(order)},
                                      "witness": "listscripts on store %r active=%r" % (list(order), active), "observed": o.brief()[:160]})
    return dict(n=n, states=0, distinct=len(distinct), violations=viols, sample=None)


def run(tier, seed):
    # quick: depth 3 with one deviation; thorough: depth 4 with one deviation AND depth 3 with two (the product depth 4 x two deviations
    # over 21 events, 6 status wordings and 6 cut choices ran for more than an hour)
    configs = [(3, 1)] if tier == "quick" else [(4, 1), (3, 2)]
    depth, bound = max(c[0] for c in configs), max(c[1] for c in configs)
    tasks = []
    for cdepth, cbound in configs:
        for init_i in range(len(INITIAL)):
            for version in (True, False):
                for first in range(len(EVENTS)):
                    # (the special-purpose stores - non-ASCII names under a debug client, empty bodies, exact read size - one event less deep)
                    tasks.append((init_i, version, cdepth if init_i < 4 else cdepth - 1, cbound, first))
    res = pool.run_tasks("checks.c15:task", tasks)
    nn = len([1 for p in SURPLUS for q in TAILS if p + q])
    res += pool.run_tasks("checks.c15:names_task", [(lo, lo + 16) for lo in range(0, nn, 16)])
    n = sum(r["n"] for r in res)
    viols = []
    for r in res:
        viols.extend(r["violations"])
    cov = dict(states=sum(r["states"] for r in res), transitions=n, traces_validated_against_impl=n, evaluations=n,
               distinct_nontrivial=sum(r["distinct"] for r in res),
               rule="E1: BFS over histories of %d events (operations over names a/b and two bodies) to depth %d from %d initial stores, with and without "
                    "VERSION, dedup on the reference server's (store, active); E2: for every history all deviations (literal encodings of names/bodies, "
                    "quota / bad-script NO, recv cut after 1/2/7 bytes at any recv) up to %d per history; after every step the result must equal the "
                    "reference server's own answer, no unread bytes, empty protocol-violation log" % (len(EVENTS), depth, len(INITIAL), bound),
               samples=[r["sample"] for r in res if r["sample"]][:4] or [{"note": "none"}], exhaustive=True, deviation_bound=bound, depth=depth)
    return dict(violations=viols, coverage=cov, harness_errors=[],
                assumptions=["the property's 'randomly chooses' is replaced by exhaustive enumeration of the server's choices under a deviation bound"])


def replay(payload):
    c = payload["case"]
    if c.get("names_case"):
        allnames = [p + q for p in SURPLUS for q in TAILS if p + q]
        i = allnames.index(c["name"])
        return [v for v in names_task((i, i + 1))["violations"] if v["case"] == c]
    hist = tuple(tuple(e) for e in c["history"])
    bad, step, srv, ch = run_history(c["init"], c["version"], hist, c["choices"], seg_choice=c.get("bound", 1), shadow=not any(c["choices"]))
    if bad:
        sig = list(payload["signature"])
        sig[3] = bad[0]
        return [{"property": "C15", "signature": sig, "what": bad[1], "witness": payload.get("witness"), "observed": bad[1][:160]}]
    return []
