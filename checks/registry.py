"""Which properties have a built check (drives MANIFEST.json via tools_manifest.py)."""

ENGINES = [
    {"name": "parser-state-explorer", "path": "mc/parser_engine.py",
     "serves_properties": ["C01", "C02", "C03", "C04", "C07", "C13", "C18", "C20"],
     "kind_free_text": "explicit-state BFS over the real Parser (state = shortest word), reference PDA + frozen table as oracle"},
    {"name": "filterset-explorer", "path": "mc/factory_engine.py", "serves_properties": ["C06", "C11", "C12", "C19"],
     "kind_free_text": "explicit-state BFS over FiltersSet operation histories + finite products of definitions x values"},
    {"name": "wire-explorer", "path": "mc/wire_engine.py",
     "serves_properties": ["C05", "C08", "C09", "C10", "C14", "C15", "C16", "C17"],
     "kind_free_text": "deviation-bounded DFS / finite products of client operations against an executable RFC 5804 reference server over a virtual socket"},
]

_PARSER_NOTE = ("trusted base: reference lexer/PDA and frozen table in /verif/mc/refsieve (calibrated against the suite's pinned "
                "verdicts), CPython; bounded: word length per scenario, string contents of the alphabets")

BUILT = {
    "C01": dict(engine="parser-state-explorer", technique="explicit-state BFS over token words on the real parser vs reference PDA (bounded exhaustive)",
                text="every word up to the scenario depth over alphabets covering every token class, command and tag is executed on the real "
                     "Parser and judged against an independent RFC 5228 recogniser + frozen table; all layouts for state representatives",
                note=_PARSER_NOTE, design_ref="3 C01"),
}

BUILT["C02"] = dict(engine="parser-state-explorer", technique="explicit-state BFS over token words + exhaustive byte-edit neighbourhoods + pumped families, step-budget oracle",
                   text="every explored word (and every single-byte edit / truncation of a corpus of short scripts) must end in True/False within 3*len+16 lexer "
                        "steps, never raise, and carry a well-formed error / error_pos / result",
                   note=_PARSER_NOTE + "; regex-internal time is not observable by a step count", design_ref="3 C02")
BUILT["C03"] = dict(engine="parser-state-explorer", technique="explicit-state BFS over token words; token-conservation and tree-equality oracle vs reference generic tree",
                   text="for every accepted word the canonical tree of Parser.result must contain exactly the source's tokens (position-unique values) and "
                        "equal the tree built by the independent RFC 5228 section 8.2 recogniser",
                   note=_PARSER_NOTE, design_ref="3 C03")
BUILT["C07"] = dict(engine="parser-state-explorer", technique="explicit-state BFS incl. no-require scenarios; independent walk with frozen extension table + exhaustive require-removal re-runs",
                   text="every accepted word is walked against the frozen extension table; every valid word is re-run with each needed extension removed "
                        "and must be rejected with the exact 'extension not loaded' message",
                   note=_PARSER_NOTE, design_ref="3 C07")
BUILT["C18"] = dict(engine="parser-state-explorer", technique="explicit-state BFS under position-rich layouts; reference first-invalid-token positions + suffix re-runs",
                   text="every rejected word is rendered in layouts mixing LF/CRLF, comments and multi-byte text; reported line / error_pos are compared with "
                        "the reference's first invalidating token (exact for tokens wrong in themselves, lower bound otherwise) and must not change under 4 suffixes",
                   note=_PARSER_NOTE, design_ref="3 C18")

BUILT["C04"] = dict(engine="parser-state-explorer", technique="explicit-state BFS accepted states + exhaustive products of quoting-edge values x slot kinds; print/re-parse/re-print oracle",
                   text="every accepted word and every string of length <= 3/4 over a quoting alphabet (and every multi-line body of <= 2/3 lines) in every "
                        "slot kind is serialised with tosieve(), re-parsed (tree equality) and re-serialised (byte fixed point)",
                   note=_PARSER_NOTE, design_ref="3 C04")

BUILT["C20"] = dict(engine="parser-state-explorer", technique="exhaustive product of generated argument definitions x explicit-state BFS over each definition's alphabet vs reference PDA built from the same definition",
                   text="every definition of the documented shape within the bounds is registered with add_commands under a fresh name; all uses up to the "
                        "depth are judged (accept exactly the allowed uses, arguments under the defined names, round trip, sibling stays unknown)",
                   note=_PARSER_NOTE, design_ref="3 C20")

NOT_BUILT = {}
