"""Which properties have a built check (drives MANIFEST.json via tools_manifest.py)."""

ENGINES = [
    {"name": "parser-state-explorer", "path": "mc/parser_engine.py",
     "serves_properties": ["C01", "C02", "C03", "C04", "C07", "C13", "C18", "C20"],
     "kind_free_text": "explicit-state BFS over the real Parser (state = shortest word), reference PDA + frozen table as oracle"},
    {"name": "filterset-explorer", "path": "mc/factory_engine.py", "serves_properties": ["C06", "C11", "C12", "C19"],
     "kind_free_text": "explicit-state BFS over FiltersSet operation histories + finite products of definitions x values"},
    {"name": "wire-explorer", "path": "mc/wire_engine.py",
     "serves_properties": ["C05", "C08", "C09", "C10", "C14", "C15", "C16", "C17"],
     "kind_free_text": "deviation-bounded DFS / finite products of client operations against an executable RFC 5804 reference server over a virtual socket"},
]

_PARSER_NOTE = ("trusted base: reference lexer/PDA and frozen table in /verif/mc/refsieve (calibrated against the suite's pinned "
                "verdicts), CPython; bounded: word length per scenario, string contents of the alphabets")

BUILT = {
    "C01": dict(engine="parser-state-explorer", technique="explicit-state BFS over token words on the real parser vs reference PDA (bounded exhaustive)",
                text="every word up to the scenario depth over alphabets covering every token class, command and tag is executed on the real "
                     "Parser and judged against an independent RFC 5228 recogniser + frozen table; all layouts for state representatives",
                note=_PARSER_NOTE, design_ref="3 C01"),
}

BUILT["C02"] = dict(engine="parser-state-explorer", technique="explicit-state BFS over token words + exhaustive byte-edit neighbourhoods + pumped families, step-budget oracle",
                   text="every explored word (and every single-byte edit / truncation of a corpus of short scripts) must end in True/False within 3*len+16 lexer "
                        "steps, never raise, and carry a well-formed error / error_pos / result",
                   note=_PARSER_NOTE + "; regex-internal time is not observable by a step count", design_ref="3 C02")
BUILT["C03"] = dict(engine="parser-state-explorer", technique="explicit-state BFS over token words; token-conservation and tree-equality oracle vs reference generic tree",
                   text="for every accepted word the canonical tree of Parser.result must contain exactly the source's tokens (position-unique values) and "
                        "equal the tree built by the independent RFC 5228 section 8.2 recogniser",
                   note=_PARSER_NOTE, design_ref="3 C03")
BUILT["C07"] = dict(engine="parser-state-explorer", technique="explicit-state BFS incl. no-require scenarios; independent walk with frozen extension table + exhaustive require-removal re-runs",
                   text="every accepted word is walked against the frozen extension table; every valid word is re-run with each needed extension removed "
                        "and must be rejected with the exact 'extension not loaded' message",
                   note=_PARSER_NOTE, design_ref="3 C07")
BUILT["C18"] = dict(engine="parser-state-explorer", technique="explicit-state BFS under position-rich layouts; reference first-invalid-token positions + suffix re-runs",
                   text="every rejected word is rendered in layouts mixing LF/CRLF, comments and multi-byte text; reported line / error_pos are compared with "
                        "the reference's first invalidating token (exact for tokens wrong in themselves, lower bound otherwise) and must not change under 4 suffixes",
                   note=_PARSER_NOTE, design_ref="3 C18")

BUILT["C04"] = dict(engine="parser-state-explorer", technique="explicit-state BFS accepted states + exhaustive products of quoting-edge values x slot kinds; print/re-parse/re-print oracle",
                   text="every accepted word and every string of length <= 3/4 over a quoting alphabet (and every multi-line body of <= 2/3 lines) in every "
                        "slot kind is serialised with tosieve(), re-parsed (tree equality) and re-serialised (byte fixed point)",
                   note=_PARSER_NOTE, design_ref="3 C04")

BUILT["C20"] = dict(engine="parser-state-explorer", technique="exhaustive product of generated argument definitions x explicit-state BFS over each definition's alphabet vs reference PDA built from the same definition",
                   text="every definition of the documented shape within the bounds is registered with add_commands under a fresh name; all uses up to the "
                        "depth are judged (accept exactly the allowed uses, arguments under the defined names, round trip, sibling stays unknown)",
                   note=_PARSER_NOTE, design_ref="3 C20")

_WIRE_NOTE = 'trusted base: reference RFC 5804 server / strict command parser / virtual socket in /verif/mc/refms.py, CPython; no real network, TLS or timers'
BUILT["C05"] = dict(engine="wire-explorer", technique='exhaustive enumeration of recv() segmentations (all 1-/2-/3-cut placements, byte caps) x bounded-exhaustive reply grammar, differential vs unsegmented run',
                   text='every operation x every reply of the bounded reply grammar x every single cut, every pair (short replies), caps 1/2/3/7/64, each followed by two sentinel operations; all observables must equal the unsegmented baseline',
                   note=_WIRE_NOTE, design_ref='3 C05')
BUILT["C08"] = dict(engine="wire-explorer", technique='exhaustive product of operations x hostile argument strings; strict RFC 5804 command parser on the captured bytes',
                   text="every string up to the length bound over a hostile alphabet plus look-alikes in every argument position; the bytes written must parse as exactly one command of the intended verb decoding to the caller's values",
                   note=_WIRE_NOTE, design_ref='3 C08')
BUILT["C09"] = dict(engine="wire-explorer", technique='exhaustive product of operations x status reply shapes + single NO/BYE fault at each step of multi-step operations',
                   text='9 operations x 105 status reply shapes; NO/BYE at each step of connect (with/without STARTTLS) and emulated rename; result, errcode, errmsg and exception class are judged against the reply',
                   note=_WIRE_NOTE, design_ref='3 C09')
BUILT["C10"] = dict(engine="wire-explorer", technique='exhaustive call histories over introspected public API x handshake fault placements x capability sets; monitor automaton over plain/TLS write logs',
                   text='every public method before connect, after connect and after a second connect, under every single (thorough: pair of) handshake fault, TLS wrap failure and capability set; no script verb without AUTHENTICATE OK on that connection, no AUTHENTICATE before TLS',
                   note=_WIRE_NOTE, design_ref='3 C10')
BUILT["C14"] = dict(engine="wire-explorer", technique='exhaustive product of initial stores x fault placements x bodies against an executable reference server; store-level invariant',
                   text="19 initial stores x 6 bodies x every single (thorough: pair of) fault on the five verbs of the emulation; the reference server's store before/after is judged (nothing lost, nothing else touched, True implies renamed)",
                   note=_WIRE_NOTE, design_ref='3 C14')
BUILT["C15"] = dict(engine="wire-explorer", technique='explicit-state BFS over operation histories (state = reference server store) x deviation-bounded DFS over server choices and recv cuts',
                   text="all histories of 16 events to depth 3/4 from 3 stores with and without VERSION; every server choice (encodings, quota/NO outcomes, recv cuts) up to 1/2 deviations; each result must equal the reference server's own answer, no unread bytes, no protocol violation",
                   note=_WIRE_NOTE, design_ref='3 C15')
BUILT["C16"] = dict(engine="wire-explorer", technique='exhaustive product of announced SASL lists x authmech x credentials x verdict; payload decoded and recomputed per mechanism RFC',
                   text='all subsets/orders of 5 mechanisms x 7 authmech arguments x 6 credential triples x OK/NO; mechanism selection rule, decoded PLAIN/LOGIN/OAUTHBEARER payloads and the recomputed RFC 2831 response are compared',
                   note=_WIRE_NOTE, design_ref='3 C16')
BUILT["C17"] = dict(engine="wire-explorer", technique="exhaustive product of look-alike bodies / name sets x every permitted encoding against the reference server's store",
                   text='every body of <= 2/3 lines over the look-alike pool x line endings x final newline x literal/quoted; every set of <= 2/3 names x active position x every per-name encoding',
                   note=_WIRE_NOTE, design_ref='3 C17')

_FACTORY_NOTE = 'trusted base: reference list model / reference Sieve validator in /verif/mc (factory_engine.py, refsieve), CPython; bounded: history depth, definition pool, value alphabets'
BUILT["C06"] = dict(engine='filterset-explorer', technique='exhaustive product of definition kinds x hostile values + explicit-state BFS over editing histories; reference strict validator and structure-preservation oracle',
                   text='every condition/action kind (all fileinto tag orders, all vacation tag subsets) x every value up to the length bound; the script must be accepted, strictly valid, begin with a covering require, and keep the structure of the benign-value script with every literal decoding to the supplied value; histories over a rich pool for the require line',
                   note=_FACTORY_NOTE, design_ref='3 C06')
BUILT["C11"] = dict(engine='filterset-explorer', technique='explicit-state BFS over editing histories + exhaustive product of names/descriptions x marker pairs; save/load differential',
                   text='every reachable set (history depth bound) and every name/description up to the length bound is rendered, parsed, reloaded and compared; the reloaded rendering must be a fixed point',
                   note=_FACTORY_NOTE, design_ref='3 C11')
BUILT["C12"] = dict(engine='filterset-explorer', technique='all operation sequences up to a bound without dedup + BFS with dedup over the real FiltersSet vs reference list model',
                   text='every sequence of <= 3/4 of 55 events and a deduplicated BFS to depth 7/12; after every event return value, order, flags, is_filter_disabled, wrapper structure and getfilter content are compared with the list model',
                   note=_FACTORY_NOTE, design_ref='3 C12')
BUILT["C13"] = dict(engine='parser-state-explorer', technique='exhaustive histories over an object pool; differential vs pristine forked interpreters',
                   text='every history of <= 3/4 events on two reused parsers, fresh parsers and two FiltersSets; each outcome is compared with the projection onto the same object run in a freshly forked pristine interpreter',
                   note=_FACTORY_NOTE, design_ref='3 C13')
BUILT["C19"] = dict(engine='filterset-explorer', technique='exhaustive product of supported forms x values with commas/spaces/brackets/non-ASCII; read-back differential on original / disabled / reloaded sets',
                   text='every supported condition and action form x every value up to the length bound x anyof/allof; get_filter_conditions/actions/matchtype must equal what was supplied on the original, the disabled and the reloaded set',
                   note=_FACTORY_NOTE, design_ref='3 C19')

NOT_BUILT = {}
