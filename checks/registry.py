"""Which properties have a built check (drives MANIFEST.json via tools_manifest.py)."""

ENGINES = [
    {"name": "parser-state-explorer", "path": "mc/parser_engine.py",
     "serves_properties": ["C01", "C02", "C03", "C04", "C07", "C13", "C18", "C20"],
     "kind_free_text": "explicit-state BFS over the real Parser (state = shortest word), reference PDA + frozen table as oracle"},
    {"name": "filterset-explorer", "path": "mc/factory_engine.py", "serves_properties": ["C06", "C11", "C12", "C19"],
     "kind_free_text": "explicit-state BFS over FiltersSet operation histories + finite products of definitions x values"},
    {"name": "wire-explorer", "path": "mc/wire_engine.py",
     "serves_properties": ["C05", "C08", "C09", "C10", "C14", "C15", "C16", "C17"],
     "kind_free_text": "deviation-bounded DFS / finite products of client operations against an executable RFC 5804 reference server over a virtual socket"},
]

_PARSER_NOTE = ("trusted base: reference lexer/PDA and frozen table in /verif/mc/refsieve (calibrated against the suite's pinned "
                "verdicts), CPython; bounded: word length per scenario, string contents of the alphabets")

BUILT = {
    "C01": dict(engine="parser-state-explorer", technique="explicit-state BFS over token words on the real parser vs reference PDA (bounded exhaustive)",
                text="every word up to the scenario depth over alphabets covering every token class, command and tag is executed on the real "
                     "Parser and judged against an independent RFC 5228 recogniser + frozen table; all layouts for state representatives",
                note=_PARSER_NOTE, design_ref="3 C01"),
}

NOT_BUILT = {}
