"""Which properties have a built check (drives MANIFEST.json via tools_manifest.py)."""

ENGINES = [
    {"name": "parser-state-explorer", "path": "mc/parser_engine.py",
     "serves_properties": ["C01", "C02", "C03", "C04", "C07", "C13", "C18", "C20"],
     "kind_free_text": "explicit-state BFS over the real Parser (state = shortest word), grammar-directed products (mc/validgen.py), "
                       "reference PDA + frozen table (mc/refsieve) as oracle"},
    {"name": "filterset-explorer", "path": "mc/factory_engine.py", "serves_properties": ["C06", "C11", "C12", "C19"],
     "kind_free_text": "explicit-state BFS over FiltersSet operation histories + finite products of definitions x values, reference list model"},
    {"name": "wire-explorer", "path": "mc/wire_engine.py",
     "serves_properties": ["C05", "C08", "C09", "C10", "C14", "C15", "C16", "C17"],
     "kind_free_text": "deviation-bounded DFS / finite products of client operations against an executable RFC 5804 reference server "
                       "(mc/refms.py) over a virtual socket"},
]

_PARSER_NOTE = ("trusted base: reference lexer/PDA and frozen table in /verif/mc/refsieve (calibrated at setup against the suite's pinned "
                "verdicts), CPython; bounded: word length per scenario, nesting depth, string contents of the alphabets; see evidence for the bounds completed")
_WIRE_NOTE = ("trusted base: reference RFC 5804 server / strict command parser / virtual socket in /verif/mc/refms.py, CPython; no real network, "
              "TLS or timers (sockets and ssl are shimmed inside sievelib.managesieve only)")
_FACTORY_NOTE = ("trusted base: reference list model / reference Sieve validator in /verif/mc (factory_engine.py, refsieve), CPython; bounded: history "
                 "depth, definition pool, value alphabets")


def _b(engine, technique, text, note, ref):
    return dict(engine=engine, technique=technique, text=text, note=note, design_ref=ref)


P, W, F = "parser-state-explorer", "wire-explorer", "filterset-explorer"

BUILT = {
    "C01": _b(P, "explicit-state BFS over token words on the real parser vs reference PDA + exhaustive grammar-directed products and single-token edits",
              "every word up to the scenario depth over alphabets covering every token class, command and tag (with and without require), every nested test "
              "expression to depth 3/4, every tag subset and order of every command, every single-token edit of the valid forms, every tag any command knows in tag position of every other command, string tokens and junk made of raw non-UTF-8 octets, every comment body up to "
              "a length, every require structure (one or two require commands, repeated / padded / case-variant / unknown names) before each "
              "extension use, scripts of n trivial commands around every power of two and ten in size, every single-byte edit of a 15-script corpus, all under several layouts, is executed on the real Parser and judged by an independent RFC 5228 recogniser + frozen table; the "
              "state abstraction is audited by an undeduplicated one-step bisimulation run", _PARSER_NOTE, "3 C01, 8"),
    "C02": _b(P, "explicit-state BFS + exhaustive byte-edit neighbourhoods + pumped families + reuse differential; step-budget and watchdog oracle",
              "every explored word, every single-byte edit / truncation of a corpus (bytes, str, parse_file; fresh and reused parser), pumped families (plain and behind a require) to "
              "2^13/2^16 and every accepted form re-parsed on a parser left dirty by a refused script must end in True/False within 3*len+16 lexer steps, "
              "never raise, and carry a well-formed error / error_pos / result", _PARSER_NOTE + "; time inside one regex match is only caught by the watchdog", "3 C02"),
    "C03": _b(P, "explicit-state BFS + grammar-directed products; token-conservation and tree-equality oracle vs reference generic tree; reuse differential",
              "for every accepted word the canonical tree of Parser.result must contain exactly the source's tokens (position-unique values) and equal the tree "
              "built by the independent RFC 5228 section 8.2 recogniser; the same tree must come out of a reused parser; quoting-edge value products "
              "(incl. separators only str.splitlines knows); size ladder through parse(bytes/str) and parse_file: the result holds all n commands; every schedule with <= 2/3 preemptions "
              "of 2-3 overlapping parse() calls on distinct Parser objects (mc/interleave.py) gives the trees of the scripts parsed alone", _PARSER_NOTE, "3 C03"),
    "C04": _b(P, "explicit-state BFS accepted states + exhaustive products of quoting-edge values x slot kinds + valid forms (also upper-case, repeated slots); print/re-parse/re-print oracle",
              "every accepted word, every generated valid or irregular-but-accepted form and every string of length <= 3/4 over a quoting alphabet (every "
              "multi-line body of <= 2/3 lines) in every slot kind is serialised with tosieve(), re-parsed (tree equality) and re-serialised (byte fixed point)",
              _PARSER_NOTE, "3 C04"),
    "C05": _b(W, "exhaustive enumeration of recv() segmentations (all 1-/2-/3-cut placements, byte caps) x bounded-exhaustive reply grammar, differential vs unsegmented run",
              "every operation (incl. connect with and without STARTTLS and the emulated rename) x every reply of the bounded reply grammar x every single cut, "
              "every pair (short replies), caps 1/2/3/7/64, each followed by two sentinel operations, also with a debug=True client; all observables must equal the unsegmented baseline",
              _WIRE_NOTE, "3 C05"),
    "C06": _b(F, "exhaustive product of definition kinds x hostile values + explicit-state BFS over editing histories; reference strict validator and structure-preservation oracle",
              "every condition/action kind (all fileinto tag orders, all vacation tag subsets, numeric boundary values) x every value up to the length bound and values shaped like Sieve syntax "
              "(text: literals with inner terminators, tags, numbers, comments) and long values at every 2^k-1/2^k/2^k+1; "
              "the script must be accepted, strictly valid, begin with a covering require, and keep the structure of the benign-value script with every "
              "literal decoding to the supplied value; histories over a rich pool for the require line", _FACTORY_NOTE, "3 C06"),
    "C07": _b(P, "explicit-state BFS incl. no-require scenarios + valid-form products; independent walk with frozen extension table + exhaustive require-removal re-runs (fresh and reused parser)",
              "every accepted word is walked against the frozen extension table; every valid word is re-run with each needed extension removed, on a fresh "
              "parser and on one that has just accepted the full script, and must be rejected with the exact 'extension not loaded' message", _PARSER_NOTE, "3 C07"),
    "C08": _b(W, "exhaustive product of operations x hostile argument strings + sweep of every argument length; strict RFC 5804 command parser on the captured bytes",
              "every string up to the length bound over a hostile alphabet plus look-alikes in every argument position (incl. unencodable lone surrogates: refused with nothing written) and every argument length in "
              "0..9000/70000, plain and with characters that need escaping; pairs of calls in one process (a body, then a name equal to its literal encoding, and the reverse), refused calls followed by another command, every operation refused with every registered response code, every operation after a virtual idle time of a minute / hour / day / decades (clock seam); the bytes written must parse as exactly one command of the intended verb decoding to the caller's values", _WIRE_NOTE, "3 C08"),
    "C09": _b(W, "exhaustive product of operations x status reply shapes, ordered pairs of replies on one client, single NO/BYE fault at each step of multi-step operations",
              "every operation x every status reply shape; every pair of shapes on the same client; status lines at the size limits of their parts under segmentation; NO/BYE at each step of connect (with/without STARTTLS) and "
              "emulated rename; result, errcode, errmsg, unread bytes and exception class are judged against the reply", _WIRE_NOTE, "3 C09"),
    "C10": _b(W, "exhaustive call histories over the introspected public API x handshake fault placements x capability sets (incl. DIGEST-MD5 and look-alike names) x handshake OK forms x completion with/without SASL final data; monitor automaton over plain/TLS write logs",
              "every public method before connect, after connect and after a second connect (failing in 8 ways), under every single and pair of handshake "
              "faults, TLS wrap failure, capability set and OK-line form; no script verb without AUTHENTICATE OK on that connection, no AUTHENTICATE before "
              "TLS, mechanism from the post-TLS list", _WIRE_NOTE, "3 C10"),
    "C11": _b(F, "explicit-state BFS over editing histories + exhaustive product of names/descriptions x marker pairs; save/load differential",
              "every reachable set (history depth bound; loaded through a fresh Parser, a just-failed Parser and from a file with parse_file) and every name/description up to the length bound under 4 marker pairs (one non-ASCII) is "
              "rendered, parsed, reloaded and compared; the reloaded rendering must be a fixed point", _FACTORY_NOTE, "3 C11"),
    "C12": _b(F, "all operation sequences up to a bound without dedup + BFS with dedup over the real FiltersSet vs reference list model",
              "every sequence of <= 3 (thorough: 4 when it starts with an add) of ~100 events (str and bytes names, canonically equivalent names, contents that are bare parsed actions, a filter's own content under a new name, definitions refused while they are built) and a deduplicated BFS to depth 6/8, the same events on a set sharing its parse result with an untouched twin; after every event return value, order, "
              "flags, is_filter_disabled, filter_exists, wrapper structure and getfilter content are compared with the list model", _FACTORY_NOTE, "3 C12"),
    "C13": _b(P, "exhaustive histories over an object pool; differential vs pristine forked interpreters",
              "every history of <= 3/4 events on two reused parsers, fresh parsers and two FiltersSets (incl. from_parser_result on the shared parser, "
              "mixed-case tags, parse_file, commands derived from concrete built-ins registered in every process); trees handed out earlier are read again after the last event; every cross-table tag probe parsed after the whole language was used in the process (confirmed against a fresh interpreter); each outcome is compared with the projection onto the same object run in a freshly forked pristine interpreter",
              _FACTORY_NOTE, "3 C13"),
    "C14": _b(W, "exhaustive product of initial stores x name sets x fault placements x bodies against an executable reference server; store-level invariant",
              "19 initial stores x 7 bodies x 3 name sets (ASCII, NFC/NFD twins, case twins) x every single and pair of faults on the five verbs of the "
              "emulation x four wordings of the server's completions, every single recv cut in the first 170/400 reply bytes with quoted / literal names, a ladder of bodies with k escaped characters (k around every power of two to 1000); the reference server's store before/after is judged (nothing lost, nothing else touched, True implies renamed)", _WIRE_NOTE, "3 C14"),
    "C15": _b(W, "explicit-state BFS over operation histories (state = reference server store) x deviation-bounded DFS over server choices and recv cuts",
              "all histories of 19 events (incl. a 1024-octet name with quotes) to depth 3/4 from 4 stores with and without VERSION; every server choice (encodings, status text forms, quota/NO "
              "outcomes, recv cuts incl. between CR and LF) up to 1/2 deviations; a second client object working between the steps; returned lists edited by the caller; a product of names (octet surplus x marker look-alike tails x active position x encoding); each result must equal the reference server's own answer, a reported success must be true of its store, no unread bytes, no protocol violation",
              _WIRE_NOTE, "3 C15"),
    "C16": _b(W, "exhaustive product of announced SASL lists x authmech x credentials x verdict x challenge realm; payload decoded and recomputed per mechanism RFC",
              "all subsets/orders of 7 mechanism names x 7 authmech arguments x 8 credential triples x OK/NO x completion with/without SASL final data, every credential length 0..160/1300, DIGEST-MD5 with and without realm alternating "
              "in one process; selection rule, decoded PLAIN/LOGIN/OAUTHBEARER payloads and the recomputed RFC 2831 response are compared", _WIRE_NOTE, "3 C16"),
    "C17": _b(W, "exhaustive product of look-alike bodies / name sets x every permitted encoding + read-size boundary sweep against the reference server's store",
              "every body of <= 3/4 lines over the look-alike pool x line endings x final newline x literal/quoted; every set of <= 3/4 names x active "
              "position x every per-name encoding; replies aligned at every offset around the 4096-byte read size; names with k escaped characters for every k <= 64/512; ACTIVE marker in three letter cases", _WIRE_NOTE, "3 C17"),
    "C18": _b(P, "explicit-state BFS and single-token edits under position-rich layouts; reference first-invalid-token positions + suffix re-runs",
              "every rejected word / edited script is rendered in layouts mixing LF/CRLF, comments and multi-byte text; reported line / error_pos are compared "
              "with the reference's first invalidating token (exact for tokens wrong in themselves, lower bound otherwise) and must not change under 4 suffixes nor on a parser that has just refused another script",
              _PARSER_NOTE, "3 C18"),
    "C19": _b(F, "exhaustive product of supported forms x values with commas/spaces/brackets/non-ASCII; read-back differential on original / disabled / reloaded sets and after update-rename",
              "every supported condition and action form (incl. duplicates, list + plain-string address arguments, long values, results edited in place by the caller, neighbouring filters edited after the filter was built) x every value up to the length bound x anyof/allof; get_filter_conditions/"
              "actions/matchtype must equal what was supplied on the original, the disabled and the reloaded set", _FACTORY_NOTE, "3 C19"),
    "C20": _b(P, "exhaustive product of generated argument definitions x explicit-state BFS over each definition's alphabet vs reference PDA built from the same definition; re-registration and derived-class sequences",
              "every definition of the documented shape within the bounds is registered with add_commands under a fresh name (some containing the word 'command') through every call shape (class, list, tuple, set, generator, iterator); all uses up to the depth are "
              "judged (accept exactly the allowed uses, arguments under the defined names, round trip, sibling stays unknown); names re-registered with "
              "another definition and classes derived from registered ones must follow their own definition", _PARSER_NOTE, "3 C20"),
}

NOT_BUILT = {}
