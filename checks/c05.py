"""C05 — ManageSieve replies are read identically however the bytes are segmented.

E3: operation x reply stream (bounded-exhaustive RFC 5804 reply grammar) x segmentation (every single cut,
every pair of cuts for short replies, every triple for very short ones, recv capped at 1/2/3/7/64 bytes),
each followed by two sentinel operations. Oracle: everything observable equals the unsegmented baseline."""
import itertools

from mc import pool, wire, refms, wire_engine as W

CAPS = (1, 2, 3, 7, 64)

STATUS_OPS = {
    "havespace": ("s", 10),
    "putscript": ("s", "keep;\r\n"),
    "checkscript": ("keep;",),
    "deletescript": ("s",),
    "setactive": ("s",),
    "renamescript": ("a", "b"),
}


def reply_corpus(op, tier):
    """[(label, reply bytes)]"""
    rc = [None, b"QUOTA/MAXSIZE", b'TAG "x"'] if tier == "quick" else W.RCODES
    tx = [None, ("q", b"x y"), ("q", b'a"b\\c'), ("l", b"two\r\nlines"), ("l", b"lit")] if tier == "quick" else W.TEXTS
    st = W.status_variants(rcodes=rc, texts=tx)
    out = []
    if op in STATUS_OPS:
        return [(l, b) for l, b, _c, _r, _t in st]
    few = [s for s in st if s[0] in ("OK/none/quoted", "OK/none/none", "OK/atom/literal", "NO/none/quoted", "NO/slash/literal",
                                      "BYE/none/quoted", "OK/param/literal", "NO/param/escaped", "OK/slash/literal")]
    if not few:
        few = st[:6]
    if op == "capability":
        caps = [b'"IMPLEMENTATION" "x"\r\n"SASL" "PLAIN"\r\n', b'"SIEVE" "a b"\r\n"STARTTLS"\r\n"X" {3}\r\nabc\r\n', b""]
        for i, c in enumerate(caps):
            for l, b, _c, _r, _t in few:
                out.append(("caps%d+%s" % (i, l), c + b))
        return out
    if op == "listscripts":
        names_sets = [(), ("a",), ("a", "b b"), ("OK", "{3}"), ('q"x', "\xe9")]
        for names in names_sets:
            for encs in itertools.product("ql", repeat=len(names)):
                for act in [None] + list(names[:1]) + list(names[-1:]):
                    for l, b, code, _r, _t in few:
                        if code != b"OK" and names:
                            continue
                        out.append(("list%d/%s/%s+%s" % (len(names), "".join(encs) or "-", "act" if act else "noact", l),
                                    W.listing_reply(names, act, encs, b)))
        seen = set()
        res = []
        for l, b in out:
            if b not in seen:
                seen.add(b)
                res.append((l, b))
        return res
    if op == "getscript":
        bl = W.bodies(1 if tier == "quick" else 2)
        bl += [b"keep;\r\nOK\r\n", b"{5}\r\nkeep;\r\n", b'a\r\nNO "x"\r\nb', b"\xc3\xa9\r\n\r\n\r\n", b"keep;\r", b"x" * 70 + b"\r\n",
               # one literal longer than the client's read size that arrives in thousands of fragments under the 1-byte cap
               b"# " + b"y" * (6000 if tier == "quick" else 20000) + b"\r\nkeep;\r\n"]
        # replies whose total length is EXACTLY the client's read size and its double (a recv() that fills the buffer to the brim and
        # has nothing behind it), for every status wording
        for l, b, code, _r, _t in few:
            if code != b"OK":
                continue
            for target in (4096, 8192):
                k = target
                for _ in range(3):
                    body = b"# " + b"z" * max(0, k) + b"\r\nkeep;\r\n"
                    k -= len(W.getscript_reply(body, True, b)) - target
                if len(W.getscript_reply(body, True, b)) == target:
                    out.append(("exact%d+%s" % (target, l), W.getscript_reply(body, True, b)))
        one_line = set(W.bodies(1))
        for body in bl:
            for lit in (True, False):
                if not lit and not refms.can_quote(body):
                    continue
                # (two-line bodies of the thorough tier meet three status wordings, everything else all of them)
                for l, b, code, _r, _t in (few if (tier == "quick" or body in one_line or len(body) > 60) else few[:3]):
                    if code != b"OK":
                        continue
                    out.append(("body%s+%s" % ("lit" if lit else "q", l), W.getscript_reply(body, lit, b)))
        for l, b, code, _r, _t in few:
            if code != b"OK":
                out.append(("nobody+" + l, b))
        return out
    raise AssertionError(op)


DEBUG = [False]


def observe(op, reply, seg, tier=None):
    """one execution: fresh session, scripted reply, the operation, two sentinels"""
    srv = W.ScriptedServer(store={"a": b"keep;\r\n", "z": b"stop;\r\n"}, active="a", version=(op in ("checkscript", "renamescript")))
    s = wire.open_session(srv, debug=DEBUG[0])
    if s.connect_outcome.kind != "ret" or s.connect_outcome.value is not True:
        return ("connect-failed", s.connect_outcome.brief())
    srv.script = [reply]
    sock = s.cur_socket()
    sock.set_seg(seg)
    args = STATUS_OPS.get(op) or {"capability": (), "listscripts": (), "getscript": ("a",)}[op]
    o = s.call(op, *args)
    res = [o.key()]
    bye = reply.rsplit(b"\r\n", 2)[-2].startswith(b"BYE") if reply.count(b"\r\n") >= 1 else False
    if not bye and o.kind in ("ret", "exc"):
        o1 = s.call("havespace", "x", 1)
        o2 = s.call("listscripts")
        res += [o1.key(), o2.key()]
    res.append(tuple(srv.violations))
    return tuple(res)


def observe_connect(greeting_i, seg):
    """connect itself as the operation: greeting + AUTHENTICATE reply under segmentation"""
    caps = [None, [(b"IMPLEMENTATION", b"x"), (b"SASL", b"LOGIN PLAIN"), (b"SIEVE", b"fileinto"), (b"VERSION", b"1.0")], None][greeting_i]
    srv = refms.RefServer(store={"a": b"keep;\r\n"}, active="a", caps_plain=caps, starttls=(greeting_i == 2))
    s = wire.Session(srv)
    s.new_client()
    s.plain.set_seg(seg)
    o = s.call("connect", "user", "pass", authmech=("LOGIN" if greeting_i == 1 else None), starttls=(greeting_i == 2))
    res = [o.key()]
    if o.kind == "ret" and o.value is True:
        res += [s.call("havespace", "x", 1).key(), s.call("listscripts").key()]
    res.append(tuple(srv.violations))
    return tuple(res)


def observe_rename_emulated(seg):
    srv = refms.RefServer(store={"a": b"keep;\r\n{3}\r\nOK\r\n", "z": b"stop;\r\n"}, active="a", version=False)
    s = wire.open_session(srv)
    s.cur_socket().set_seg(seg)
    o = s.call("renamescript", "a", "b")
    res = [o.key(), s.call("havespace", "x", 1).key(), s.call("listscripts").key(), s.call("getscript", "b").key()]
    res.append(tuple(srv.violations))
    return tuple(res)


def segs_for(length, tier):
    pair_max = 48 if tier == "quick" else 96
    triple_max = 0 if tier == "quick" else 24
    yield ("cap", None)
    for c in CAPS:
        yield ("cap", c)
    # (for replies longer than the read size the single cuts are thinned out: the first and last 64 offsets, those around the read
    # size, and every 7th / 61st in between)
    for i in range(1, length):
        if length <= 4096 or i <= 64 or i % (7 if length <= 8192 else 61) == 0 or i > length - 64 or 4090 <= i <= 4102:
            yield ("cuts", [i])
    if length <= pair_max:
        for a, b in itertools.combinations(range(1, length), 2):
            yield ("cuts", [a, b])
    if length <= triple_max:
        for t in itertools.combinations(range(1, length), 3):
            yield ("cuts", list(t))


def classify(base, got):
    if got[0][0] == "livelock" or any(isinstance(x, tuple) and x and x[0] == "livelock" for x in got[:-1]):
        return "livelock"
    if got[0] != base[0]:
        if got[0][0] == "exc" and base[0][0] != "exc":
            return "exception:%s" % got[0][2]
        return "wrong-value"
    if got[-1] != base[-1]:
        return "protocol-violation"
    return "desync"


def op_task(t):
    op, tier, lo, hi = t[:4]
    DEBUG[0] = len(t) > 4 and t[4]
    viols = []
    n = 0
    distinct = set()
    sample = None
    if op == "connect":
        items = [("greeting%d" % i, i) for i in (0, 1, 2)]
    elif op == "rename-emulated":
        items = [("emulated", None)]
    else:
        items = reply_corpus(op, tier)[lo:hi]
    for label, reply in items:
        if op == "connect":
            base = observe_connect(reply, None)
            length = 160
            run = lambda seg: observe_connect(reply, seg)  # noqa
        elif op == "rename-emulated":
            base = observe_rename_emulated(None)
            length = 260
            run = observe_rename_emulated
        else:
            base = observe(op, reply, None)
            length = len(reply)
            run = lambda seg: observe(op, reply, seg)  # noqa
        n += 1
        distinct.add(base)
        for kind, val in segs_for(length, tier if op not in ("connect", "rename-emulated") else "none"):
            if val is None:
                continue
            seg = (kind, val)
            got = run(seg)
            n += 1
            if got != base:
                sym = classify(base, got)
                viols.append({
                    "property": "C05", "engine": "wire",
                    "signature": ["C05", op + ("/debug" if DEBUG[0] else ""), label.split("+")[0].rstrip("0123456789") if op != "getscript" else label.split("+")[0], sym],
                    "what": "%s with reply %r under segmentation %r: %r, unsegmented: %r" % (op, reply if isinstance(reply, bytes) else label, seg, got[:2], base[:2]),
                    "case": {"debug": DEBUG[0], "op": op, "label": label, "reply_hex": reply.hex() if isinstance(reply, bytes) else None,
                             "greeting": reply if op == "connect" else None, "seg": [kind, val]},
                    "witness": "%s reply=%r seg=%r" % (op, reply if isinstance(reply, bytes) else label, seg),
                    "observed": repr(got[:2])[:200],
                })
        if sample is None and isinstance(reply, bytes) and len(reply) > 20:
            sample = {"op": op, "reply": reply.decode("utf-8", "replace"), "baseline": repr(base[0])[:120]}
    return dict(op=op, n=n, replies=len(items), distinct=len(distinct), violations=viols, sample=sample)


def run(tier, seed):
    tasks = []
    for op in list(STATUS_OPS) + ["capability", "listscripts", "getscript"]:
        total = len(reply_corpus(op, tier))
        step = max(1, (total + 5) // 6)
        for lo in range(0, total, step):
            tasks.append((op, tier, lo, lo + step))
    # the same replies with a client created with debug=True (its trace must not change what is read), non-ASCII replies only matter there
    for op in ("listscripts", "getscript", "havespace"):
        dtier = "quick" if op == "getscript" else tier  # the debug trace is exercised on the quick corpus of bodies in both tiers
        total = len(reply_corpus(op, dtier))
        step = max(1, (total + 3) // 4)
        for lo in range(0, total, step):
            tasks.append((op, dtier, lo, lo + step, True))
    tasks.append(("connect", tier, 0, 0))
    tasks.append(("rename-emulated", tier, 0, 0))
    results = pool.run_tasks("checks.c05:op_task", tasks)
    n = sum(r["n"] for r in results)
    viols = []
    for r in results:
        viols.extend(r["violations"])
    per_op = {}
    for r in results:
        d = per_op.setdefault(r["op"], dict(replies=0, executions=0))
        d["replies"] += r["replies"]
        d["executions"] += r["n"]
    cov = dict(
        states=sum(r["replies"] for r in results), transitions=n, traces_validated_against_impl=n, evaluations=n,
        distinct_nontrivial=sum(r["distinct"] for r in results),
        rule="E3: operation x reply (bounded-exhaustive reply grammar: status OK/NO/BYE x response code none/atom/slash/parameter x text "
             "none/quoted/escaped/literal; listings; script bodies from the look-alike pool) x segmentation (caps 1,2,3,7,64; every single cut; "
             "every pair for replies <= 48/96 bytes; every triple <= 24 bytes in thorough), each followed by havespace+listscripts sentinels; "
             "states = distinct (operation, reply) pairs; distinct_nontrivial = distinct baseline observations",
        samples=[r["sample"] for r in results if r["sample"]][:8], exhaustive=True, per_operation=per_op,
        caps=list(CAPS),
    )
    return dict(violations=viols, coverage=cov, harness_errors=[],
                assumptions=["reference: the unsegmented delivery of the same byte stream", "virtual socket; no real network",
                             "the property's 'random k-way splits' are replaced by the complete enumerations listed in rule"])


def replay(payload):
    c = payload["case"]
    op = c["op"]
    DEBUG[0] = bool(c.get("debug"))
    seg = tuple(c["seg"])
    if op == "connect":
        base, got = observe_connect(c["greeting"], None), observe_connect(c["greeting"], seg)
    elif op == "rename-emulated":
        base, got = observe_rename_emulated(None), observe_rename_emulated(seg)
    else:
        reply = bytes.fromhex(c["reply_hex"])
        base, got = observe(op, reply, None), observe(op, reply, seg)
    if got != base:
        sig = list(payload["signature"])
        sig[3] = classify(base, got)
        return [{"property": "C05", "signature": sig, "what": "segmentation changes the outcome: %r vs %r" % (got[:2], base[:2]),
                 "witness": payload.get("witness"), "observed": repr(got[:2])[:200]}]
    return []
