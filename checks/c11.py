"""C11 — A filter set survives being saved as a script and loaded back.

E1: every state of a history space (add/update/replace-with-description/disable/enable/move/remove over a rich
definition pool); E3: names x descriptions over a small hostile alphabet x marker pairs."""
import itertools

from mc import pool, seams, canon, factory_engine as F
from . import c12

# à = c3 a0, Ѕ = d0 85: last UTF-8 byte looks like NBSP / NEL; U+2028 and FF: line ends for str.splitlines() only, not for Sieve comments
# e + U+0301 (decomposed) and U+2126 OHM SIGN (a singleton): text that Unicode normalisation would rewrite - names are octets, not glyphs
CHARS = ["a", " ", "é", "#", ":", '"', "F", "à", "Ѕ", "\u2028", "\x0c", "e\u0301", "\u2126"]
MARKERS = [("# Filter: ", "# Description: "), ("# rule:", "# info:"), ("#N ", "#D "), ("# Règle : ", "# Détail → "),
           ("# [Filter] ", "# (Desc)+ ")]  # markers are plain text, also when they hold regular-expression metacharacters


def texts(maxlen, markers):
    out = []
    for n in range(1, maxlen + 1):
        for tup in itertools.product(CHARS, repeat=n):
            v = "".join(tup)
            if v != v.strip():
                continue
            if any(m.strip() in v or m in v for m in markers):
                continue
            out.append(v)
    # long names / descriptions: every length 2^k - 1, 2^k, 2^k + 1
    unit = 'a é#:"F'
    for k in range(5, 11 if maxlen <= 3 else 14):
        for L in (2 ** k - 1, 2 ** k, 2 ** k + 1):
            v = (unit * (L // len(unit) + 1))[:L].strip()
            if not any(m.strip() in v or m in v for m in markers):
                out.append(v)
    return out + ["Unnamed rule 1", "my filter", "Filter", "Description", "x: y", "été #1"]


def reload(ns, text, markers=None, dirty=False):
    p = ns.parser.Parser()
    if dirty:
        # the same Parser object has just refused a script that carried marker comments of its own
        m = markers or ("# Filter: ", "# Description: ")
        p.parse('%sghost\n%sleft over\nfileinto "x";\nkeep;\n' % m)
    if not p.parse(text):
        return None, "rendering rejected by the parser: %s" % p.error
    kw = {}
    if markers:
        kw = dict(filter_name_pretext=markers[0], filter_desc_pretext=markers[1])
    fs2 = F.new_set(ns, **kw)
    fs2.from_parser_result(p)
    return fs2, None


def snapshot(fs, ns):
    out = []
    for f in fs.filters:
        out.append((f["name"], bool(f["enabled"]), f.get("description") or "", canon.node_of(f["content"], ns)))
    return out


def check_roundtrip(ns, fs, markers=None):
    """-> None | (clause, text)"""
    text1 = F.render(fs)
    fs2, err = reload(ns, text1, markers)
    if fs2 is None:
        return ("reparse", err)
    a, b = snapshot(fs, ns), snapshot(fs2, ns)
    if [x[0] for x in a] != [x[0] for x in b]:
        return ("names", "names/order %r reloaded as %r" % ([x[0] for x in a], [x[0] for x in b]))
    if [x[1] for x in a] != [x[1] for x in b]:
        return ("enabled", "enabled flags %r reloaded as %r" % ([x[1] for x in a], [x[1] for x in b]))
    if [x[2] for x in a] != [x[2] for x in b]:
        return ("descriptions", "descriptions %r reloaded as %r" % ([x[2] for x in a], [x[2] for x in b]))
    if set(fs.requires) != set(fs2.requires):
        return ("requires", "requires %r reloaded as %r" % (fs.requires, fs2.requires))
    fs2d, err = reload(ns, text1, markers, dirty=True)
    if fs2d is None or snapshot(fs2d, ns) != b:
        return ("reused-parser", "loaded through a Parser that had just refused another script: %s" % (
            err or "%r instead of %r" % ([x[:3] for x in snapshot(fs2d, ns)], [x[:3] for x in b])))
    # saved to a file (the octets of the rendering, nothing translated) and loaded through parse_file: the same set again
    import os
    import tempfile
    fd, path = tempfile.mkstemp(prefix="verif_c11_", suffix=".sieve")
    try:
        with os.fdopen(fd, "wb") as f:
            f.write(text1.encode("utf-8"))
        pf = ns.parser.Parser()
        try:
            okf = pf.parse_file(path)
        except Exception as e:  # noqa
            return ("file-load", "parse_file on the saved rendering raised %s: %s" % (type(e).__name__, str(e)[:80]))
    finally:
        os.unlink(path)
    if okf is not True:
        return ("file-load", "parse_file refuses the saved rendering: %s" % pf.error)
    kwf = dict(filter_name_pretext=markers[0], filter_desc_pretext=markers[1]) if markers else {}
    fsf = F.new_set(ns, **kwf)
    fsf.from_parser_result(pf)
    if snapshot(fsf, ns) != b:
        return ("file-load", "the set loaded with parse_file from the saved rendering differs from the one loaded with parse: %r instead of %r" % (
            [x[:3] for x in snapshot(fsf, ns)], [x[:3] for x in b]))
    text2 = F.render(fs2)
    # "whose filters render to scripts that parse to the same trees" (in-memory representations may differ)
    t1 = seams.run_parse(text1)
    t2 = seams.run_parse(text2)
    if t2.verdict != "ACC" or t1.tree != t2.tree:
        return ("tree", "rendering of the reloaded set parses to a different tree (%s)" % t2.brief())
    fs3, err = reload(ns, text2, markers)
    if fs3 is None:
        return ("reparse2", err)
    text3 = F.render(fs3)
    if text3 != text2:
        return ("fixed-point", "rendering of the reloaded set is not a fixed point")
    for f2 in fs2.filters:
        if fs2.is_filter_disabled(f2["name"]) != (not f2["enabled"]):
            return ("enabled", "reloaded flag and structure disagree for %r" % f2["name"])
    return None


def hist_events():
    ev = []
    for n in ("a", "b"):
        for d in (("d1", "d3", "d5", "d6", "d7", "d10", "d12", "d13", "d14", "d15") if n == "a" else ("d1", "d3", "d7")):
            ev.append(("add", n, d))
        ev.append(("update", n, "c", "d2"))
        ev.append(("replace", n, ("fresh", "d4"), None, "desc é: x"))
        ev.append(("replace", n, ("fresh", "d1"), "c", "second"))
        ev.append(("remove", n))
        ev.append(("enable", n))
        ev.append(("disable", n))
        ev.append(("move", n, "down"))
    # names that look like the ones the loader makes up for filters without a name comment
    ev.append(("add", "Unnamed rule 1", "d1"))
    ev.append(("add", "Unnamed rule 2", "d7"))
    ev.append(("move", "Unnamed rule 1", "down"))
    return ev


def hist_task(t):
    first, depth = t
    ns = seams.load()
    evs = hist_events()
    viols = []
    n = 0
    seen = set()
    frontier = [[evs[first]]]
    d = 1
    while frontier and d <= depth:
        nxt = []
        for h in frontier:
            fs = F.new_set(ns)
            model = F.RefFilters()
            skip = False
            for ev in h:
                try:
                    if c12.apply(ev, fs, model, ns) is None:
                        skip = True
                        break
                except Exception:  # noqa
                    skip = True
                    break
            if skip:
                continue
            n += 1
            try:
                bad = check_roundtrip(ns, fs)
            except Exception as e:  # noqa
                bad = ("exception:%s" % type(e).__name__, "save/load raised %s: %s" % (type(e).__name__, str(e)[:100]))
            if bad:
                viols.append({"property": "C11", "engine": "factory", "signature": ["C11", "history", h[-1][0], bad[0]],
                              "what": "after %s: %s" % (" ; ".join(c12.ev_label(e) for e in h), bad[1]),
                              "case": {"kind": "history", "history": c12._jsonable(h)},
                              "witness": " ; ".join(c12.ev_label(e) for e in h), "observed": bad[1][:200]})
                continue
            k = model.state()
            if k not in seen:
                seen.add(k)
                if d < depth:
                    for ev in evs:
                        nxt.append(h + [ev])
        frontier = nxt
        d += 1
    return dict(n=n, distinct=len(seen), violations=viols, sample=None)


def text_class(v):
    cl = []
    for ch, name in ((" ", "space"), ("#", "hash"), (":", "colon"), ('"', "quote")):
        if ch in v:
            cl.append(name)
    if any(ord(c) > 127 for c in v):
        cl.append("non-ascii")
    return "+".join(cl) or "plain"


def text_task(t):
    mi, maxlen, part = t
    ns = seams.load()
    markers = MARKERS[mi]
    vals = texts(maxlen, markers)
    viols = []
    n = 0
    distinct = set()
    sample = None
    kw = dict(filter_name_pretext=markers[0], filter_desc_pretext=markers[1])
    for i, v in enumerate(vals):
        if i % 4 != part:
            continue
        for role in ("name", "description", "both"):
            fs = F.new_set(ns, **kw)
            name = v if role in ("name", "both") else "plain"
            desc = v if role in ("description", "both") else None
            fs.addfilter("other", [("X", ":is", "y")], [("keep",)])
            fs.addfilter(name, [("Subject", ":is", "x")], [("fileinto", "B")])
            if desc is not None:
                fs.replacefilter(name, fs.getfilter(name), description=desc)
            fs.disablefilter("other")
            n += 1
            try:
                bad = check_roundtrip(ns, fs, markers)
            except Exception as e:  # noqa
                bad = ("exception:%s" % type(e).__name__, "save/load raised %s: %s" % (type(e).__name__, str(e)[:100]))
            distinct.add((text_class(v), role, bad[0] if bad else None))
            if bad:
                viols.append({"property": "C11", "engine": "factory", "signature": ["C11", "text:" + role, "markers%d/%s" % (mi, text_class(v)), bad[0]],
                              "what": "%s %r with markers %r: %s" % (role, v, markers, bad[1]),
                              "case": {"kind": "text", "markers": mi, "value": v, "role": role},
                              "witness": "%s=%r markers=%r" % (role, v, markers), "observed": bad[1][:200]})
            elif sample is None and len(v) > 2 and role == "both":
                sample = {"name_and_description": v, "markers": list(markers), "script": F.render(fs)}
    return dict(n=n, distinct=len(distinct), violations=viols, sample=sample)


def run(tier, seed):
    depth = 4 if tier == "quick" else 5
    maxlen = 3 if tier == "quick" else 4
    r1 = pool.run_tasks("checks.c11:hist_task", [(i, depth) for i in range(len(hist_events()))])
    r2 = pool.run_tasks("checks.c11:text_task", [(mi, maxlen, part) for mi in range(len(MARKERS)) for part in range(4)])
    res = r1 + r2
    n = sum(r["n"] for r in res)
    viols = []
    for r in res:
        viols.extend(r["violations"])
    cov = dict(states=sum(r["distinct"] for r in r1), transitions=n, traces_validated_against_impl=n, evaluations=n,
               distinct_nontrivial=sum(r["distinct"] for r in res),
               rule="E1: histories of %d events (rich definitions, descriptions via replacefilter) to depth %d, dedup on the list model's state; E3: every "
                    "single-line text of length <= %d over %r (not white-space delimited, free of the marker texts) as name, description or both x %d marker "
                    "pairs; each set is rendered, parsed, loaded with from_parser_result and compared (names, order, enabled, descriptions, requires, "
                    "trees), and the reloaded set's rendering must be a fixed point" % (len(hist_events()), depth, maxlen, CHARS, len(MARKERS)),
               samples=[r["sample"] for r in res if r.get("sample")][:4] or [{"note": "none"}], exhaustive=True)
    return dict(violations=viols, coverage=cov, harness_errors=[], assumptions=["description None is equivalent to the empty string"])


def replay(payload):
    ns = seams.load()
    c = payload["case"]
    if c["kind"] == "history":
        h = c12._unjson(c["history"])
        fs = F.new_set(ns)
        model = F.RefFilters()
        for ev in h:
            if c12.apply(ev, fs, model, ns) is None:
                return []
        bad = check_roundtrip(ns, fs)
    else:
        markers = MARKERS[c["markers"]]
        kw = dict(filter_name_pretext=markers[0], filter_desc_pretext=markers[1])
        fs = F.new_set(ns, **kw)
        v, role = c["value"], c["role"]
        name = v if role in ("name", "both") else "plain"
        desc = v if role in ("description", "both") else None
        fs.addfilter("other", [("X", ":is", "y")], [("keep",)])
        fs.addfilter(name, [("Subject", ":is", "x")], [("fileinto", "B")])
        if desc is not None:
            fs.replacefilter(name, fs.getfilter(name), description=desc)
        fs.disablefilter("other")
        bad = check_roundtrip(ns, fs, markers)
    if bad:
        sig = list(payload["signature"])
        sig[3] = bad[0]
        return [{"property": "C11", "signature": sig, "what": bad[1], "witness": payload.get("witness"), "observed": bad[1][:200]}]
    return []
