"""Shared driver for the parser-family checks (C01, C02, C03, C04, C07, C18): run the parser scenarios
in parallel with a selected set of oracles and assemble coverage."""
import os
import time

from mc import parser_engine as E, scenarios as S, pool, words

ORACLES = {
    "c01": E.oracle_c01,
    "c02": E.oracle_c02,
    "c03": E.oracle_c03,
    "c07walk": E.oracle_c07_walk,
    "c18": E.oracle_c18,
}

# (scenario factory, args, depth quick, depth thorough, split on first symbol)
PLAN = [
    ("flow", (), 7, 10, False),
    ("flowblocks", (), 6, 8, True),
    ("tests", (), 6, 8, True),
    ("lists", (), 6, 8, True),
    ("roles", (), 4, 5, True),
    ("roles_all", (), 3, 4, False),
    ("nondet", (), 5, 7, True),
    ("lex", (), 3, 4, True),
    ("macro", (), 3, 5, True),
    ("full", (), 2, 3, True),
]


def plan(tier, include_args=True, include_noreq=False, only=None):
    out = []
    for name, args, dq, dt, split in PLAN:
        if only and name not in only:
            continue
        out.append((name, args, dq if tier == "quick" else dt, split))
    if include_args:
        for c in S.all_commands():
            if only and "args" not in only:
                continue
            out.append(("args", (c,), 4 if tier == "quick" else 6, False))
    if include_noreq:
        for c in S.all_commands():
            out.append(("args_noreq", (c,), 5 if tier == "quick" else 6, False))
    return out


def _post_c18(case, st):
    return list(E.post_c18_suffix(case, st) or ()) + [v for v in (E.post_reuse(case, st) or ()) if v["property"] == "C18"]


POSTS = {"c07removal": E.post_c07_removal, "c18suffix": E.post_c18_suffix, "c18suffix+reuse": _post_c18, "c04": E.post_c04, "reuse": E.post_reuse}


def make_tasks(tier, seed, oracles, layouts=(), layout_depth=2, budget_s=None, post=None, base_layout="space", **kw):
    tasks = []
    # thorough runs are bounded by a wall-clock budget: a task that hits it stops at a completed depth and is reported
    # under coverage.caps_hit (a capped run is never called exhaustive)
    if budget_s is None and tier == "thorough":
        budget_s = float(os.environ.get("VERIF_THOROUGH_BUDGET_S", "1200"))
    deadline_abs = time.time() + budget_s if budget_s else None
    for name, args, depth, split in plan(tier, **kw):
        scn = getattr(S, "scn_" + name)(*args)
        base = dict(scn=name, args=args, depth=depth, oracles=list(oracles), layouts=list(layouts),
                    layout_depth=layout_depth, seed=seed, budget_s=budget_s, first=None, post=post, base_layout=base_layout,
                    deadline_abs=deadline_abs)
        if split and depth >= 3:
            sig = list(scn["sigma"])
            # 1 task per first symbol
            for s in sig:
                t = dict(base)
                t["first"] = [s]
                tasks.append(t)
        else:
            tasks.append(base)
    return tasks


AUDIT_PLAN = [("flow", (), 5, 6), ("tests", (), 4, 5), ("lists", (), 4, 5), ("nondet", (), 4, 5), ("roles", (), 3, 4)]


def audit_tasks(tier, seed, oracles):
    out = []
    for name, args, dq, dt in AUDIT_PLAN:
        out.append(dict(scn=name, args=args, depth=dq if tier == "quick" else dt, oracles=list(oracles), layouts=[], layout_depth=0,
                        seed=seed, budget_s=None, first=None, post=None, audit=True))
    for c in ("header", "fileinto", "vacation", "hasflag", "size"):
        out.append(dict(scn="args", args=(c,), depth=3 if tier == "quick" else 4, oracles=list(oracles), layouts=[], layout_depth=0,
                        seed=seed, budget_s=None, first=None, post=None, audit=True))
    return out


def task(t):
    scn = getattr(S, "scn_" + t["scn"])(*t["args"])
    orcs = [ORACLES[o] for o in t["oracles"]]
    deadline = t.get("deadline_abs") or (time.time() + t["budget_s"] if t.get("budget_s") else None)
    st, viols = E.bfs(scn, t["depth"], orcs, layouts=t["layouts"], layout_depth=t["layout_depth"],
                      order_seed=t["seed"], first_symbols=t["first"], deadline=deadline,
                      post=POSTS[t["post"]] if t.get("post") else None, base_layout=t.get("base_layout", "space"),
                      audit=bool(t.get("audit")))
    return dict(
        audit=dict(groups=st.audit_groups, words=st.audit_words, mismatches=st.audit_mismatches, examples=st.audit_examples) if t.get("audit") else None,
        scn=scn["name"] + ("/audit" if t.get("audit") else ""), depth=t["depth"], first=t["first"], states=st.states, transitions=st.transitions,
        executions=st.executions, max_depth=st.max_depth, verdicts=st.verdicts, refkinds=st.refkinds,
        nontrivial=list(st.nontrivial), samples=st.samples, capped=st.capped, completions=st.completions,
        layout_runs=st.layout_runs, closer_runs=st.closer_runs, harness_errors=st.harness_errors, violations=viols,
    )


def assemble(results, extra_cov=None):
    cov = dict(states=0, transitions=0, executions=0)
    verdicts = {}
    refkinds = {}
    nontrivial = set()
    samples = []
    capped = []
    scn_info = {}
    harness = []
    viols = []
    compl = lay = closers = 0
    for r in results:
        cov["states"] += r["states"]
        cov["transitions"] += r["transitions"]
        cov["executions"] += r["executions"]
        for k, v in r["verdicts"].items():
            verdicts[k] = verdicts.get(k, 0) + v
        for k, v in r["refkinds"].items():
            refkinds[k] = refkinds.get(k, 0) + v
        nontrivial.update(r["nontrivial"])
        if r["samples"] and len(samples) < 10:
            samples.append(dict(scenario=r["scn"], **r["samples"][0]))
        if r["capped"]:
            capped.append(r["capped"])
        s = scn_info.setdefault(r["scn"], dict(depth=r["depth"], states=0, transitions=0, max_depth_reached=0))
        s["states"] += r["states"]
        s["transitions"] += r["transitions"]
        s["max_depth_reached"] = max(s["max_depth_reached"], r["max_depth"])
        harness.extend(r["harness_errors"])
        viols.extend(r["violations"])
        compl += r["completions"]
        closers += r.get("closer_runs", 0)
        lay += r["layout_runs"]
    audits = [r["audit"] for r in results if r.get("audit")]
    coverage = dict(
        abstraction_audit=dict(scenarios=len(audits), words_without_dedup=sum(a["words"] for a in audits), key_groups=sum(a["groups"] for a in audits),
                               one_step_mismatches=sum(a["mismatches"] for a in audits), examples=[e for a in audits for e in a["examples"]][:3])
        if audits else None,
        states=cov["states"],
        transitions=cov["transitions"],
        traces_validated_against_impl=cov["executions"],
        evaluations=cov["executions"],
        distinct_nontrivial=len(nontrivial),
        rule="E1: BFS over words of each scenario alphabet; every word is executed on the real Parser and on the "
             "reference PDA; a word is expanded only if (implementation configuration, reference configuration) is new. "
             "distinct_nontrivial = distinct keys of live states that are accepted or lie beyond the first token after "
             "the scenario prefix.",
        samples=samples or [{"note": "no accepted sample at depth>=2"}],
        exhaustive=not capped,
        impl_verdicts=verdicts,
        reference_verdicts=refkinds,
        scenarios=scn_info,
        caps_hit=capped,
        reference_completions_run=compl,
        closer_executions=closers,
        layout_executions=lay,
    )
    if extra_cov:
        coverage.update(extra_cov)
    return coverage, viols, harness


def replay_text(payload, oracles, post=None):
    """re-execute one recorded parser case without the explorer"""
    text = bytes.fromhex(payload["text_hex"])
    case = E.execute(tuple(payload.get("word") or ()), layout=payload.get("layout", "space"), text=text,
                     want_config=False)
    out = []
    for o in oracles:
        out.extend(ORACLES[o](case))
    if payload.get("dirty_hex"):
        ns = E.seams.load()
        p = ns.parser.Parser()
        E.seams.run_parse(bytes.fromhex(payload["dirty_hex"]), parser=p, want_tree=False)
        o2 = E.seams.run_parse(text, parser=p)
        o1 = case.obs
        if (o2.verdict, o2.error, o2.error_pos, o2.tree) != (o1.verdict, o1.error, o1.error_pos, o1.tree):
            v = E.viol(payload["property"], payload["signature"][1], case, "REUSE", payload["signature"][3], None, None, "reused parser differs from a fresh one")
            out.append(v)
    return out


ASSUMPTIONS = [
    "reference model: RFC 5228 section 8 grammar + frozen language table (mc/refsieve/table.py, DESIGN.md Appendix A)",
    "state abstraction: generic vars(parser) snapshot taken at token exhaustion; audited by one-step bisimulation (C01)",
    "bounds: word length per scenario as listed under coverage.scenarios; string contents limited to the alphabets",
]


# ---------------------------------------------------------------------------------------------
# E3: grammar-directed valid scripts and their single-token edits (mc/validgen.py)


def valid_tasks(tier, seed, oracles, post=None, with_edits=True, layouts=(), base_layout="space", edit_layouts=(), bare_edits=False):
    from mc import validgen as G

    tasks = []
    base = dict(oracles=list(oracles), post=post, layouts=list(layouts), base_layout=base_layout, edit_layouts=list(edit_layouts))
    tdepth = 3 if tier == "quick" else 4
    nt = len(G.tests(tdepth))
    chunk = 16 if tier == "quick" else 64
    for i in range(chunk):
        tasks.append(dict(base, kind="tests", depth=tdepth, part=i, parts=chunk))
    for c in S.all_commands():
        cap = 1500 if tier == "quick" else 40000
        tasks.append(dict(base, kind="cmd", name=c, cap=cap))
    tasks.append(dict(base, kind="chains", depth=2 if tier == "quick" else 3))
    tasks.append(dict(base, kind="repeat"))
    for i in range(8):
        tasks.append(dict(base, kind="crosstags", part=i, parts=8))
    rparts = 16 if tier == "quick" else 48
    for i in range(rparts):
        tasks.append(dict(base, kind="requires", part=i, parts=rparts, one=3 if tier == "quick" else 4, two=2 if tier == "quick" else 3))
    if with_edits:
        parts = 16 if tier == "quick" else 48
        for i in range(parts):
            tasks.append(dict(base, kind="edits", part=i, parts=parts, rich=(tier != "quick"), bare=bare_edits))
    return tasks


def _valid_words(t):
    from mc import validgen as G

    k = t["kind"]
    if k == "tests":
        for i, w in enumerate(G.test_scripts(t["depth"])):
            if i % t["parts"] == t["part"]:
                yield w
    elif k == "cmd":
        for w in G.command_scripts(t["name"], max_forms=t["cap"]):
            yield w
    elif k == "chains":
        for w in G.chains(t["depth"]):
            yield w
    elif k == "repeat":
        for c in S.all_commands():
            for w in G.repeat_scripts(c):
                yield w
    elif k == "crosstags":
        n = 0
        for c in S.all_commands():
            for w in G.crosstag_scripts(c):
                n += 1
                if n % t["parts"] == t["part"]:
                    yield w
    elif k == "requires":
        for i, w in enumerate(G.require_scripts(t["one"], t["two"])):
            if i % t["parts"] == t["part"]:
                yield w
    elif k == "edits":
        src = list(G.test_scripts(1)) + G.chains(1)
        for c in S.all_commands():
            src.extend(G.command_scripts(c, max_slots=(2 if t.get("rich") else 1), max_forms=(60 if t.get("rich") else 12)))
        n = 0
        for w in src:
            fw = G.flatten(w)
            if len(fw) > 25:
                continue
            for e in G.edits(fw):
                n += 1
                if n % t["parts"] == t["part"]:
                    yield e


def valid_task(t):
    from mc import validgen as G

    orcs = [ORACLES[o] for o in t["oracles"]]
    post = POSTS[t["post"]] if t.get("post") else None
    st = E.Stats()
    viols = []
    nvalid = 0
    distinct = set()
    def words_of(t):
        k = 0
        for w in _valid_words(t):
            yield w, False
            k += 1
            # the same edit without the require line in front (the edited tokens are the first ones of the script); quick: every other edit
            if t.get("bare") and t["kind"] == "edits" and (t.get("rich") or k % 2 == 0):
                yield w, True

    for w, bare in words_of(t):
        word = (() if (t["kind"] == "requires" or bare) else G.PREFIX) + tuple(w)
        case = E.execute(word, want_config=str(t.get("post")).startswith("c18suffix"), layout=t.get("base_layout", "space"))
        st.executions += 1
        st.transitions += 1
        st.verdicts[case.obs.verdict] = st.verdicts.get(case.obs.verdict, 0) + 1
        st.refkinds[case.v.kind] = st.refkinds.get(case.v.kind, 0) + 1
        if case.v.kind == "VALID":
            nvalid += 1
        hc = E.selfcheck_render(case)
        if hc:
            st.harness_errors.append("validgen %s: %s" % (t["kind"], hc))
            continue
        for o in orcs:
            viols.extend(o(case))
        if post is not None:
            viols.extend(post(case, st) or ())
        lays = (t.get("layouts") or ()) if case.v.kind == "VALID" else (t.get("edit_layouts") or ())
        for lay in lays:
            lc = E.execute(word, layout=lay, want_config=str(t.get("post")).startswith("c18suffix"))
            st.executions += 1
            for o in orcs:
                viols.extend(o(lc))
            if post is not None:
                viols.extend(post(lc, st) or ())
        distinct.add((case.v.kind, case.v.reason, case.v.owner, case.obs.verdict, len(case.toks)))
        if len(st.samples) < 2 and case.v.kind == "VALID" and len(w) > 8:
            st.samples.append({"word": words.show(tuple(w)), "impl": case.obs.brief(), "ref": repr(case.v)})
    return dict(
        scn="valid:" + t["kind"] + (":" + t["name"] if t.get("name") else ""), depth=t.get("depth", 0), first=None, states=nvalid,
        transitions=st.transitions, executions=st.executions, max_depth=0, verdicts=st.verdicts, refkinds=st.refkinds,
        nontrivial=[hash(x) for x in distinct], samples=st.samples, capped=None, completions=0, layout_runs=0, closer_runs=0,
        harness_errors=st.harness_errors, violations=viols)


# ---------------------------------------------------------------------------------------------
# E3: comment bodies (the lexer's comment rules against the strict reference lexer)

COMMENT_CHARS = ["*", "/", "a", " ", "\n", "#", '"']


def comment_tasks(tier, oracles, post=None):
    maxlen = 4 if tier == "quick" else 6
    return [dict(oracles=list(oracles), post=post, maxlen=maxlen, part=i, parts=16) for i in range(16)]


def comment_task(t):
    import itertools

    orcs = [ORACLES[o] for o in t["oracles"]]
    post = POSTS[t["post"]] if t.get("post") else None
    st = E.Stats()
    viols = []
    n = 0
    req = b'require ["fileinto"];\n'
    for L in range(0, t["maxlen"] + 1):
        for tup in itertools.product(COMMENT_CHARS, repeat=L):
            n += 1
            if n % t["parts"] != t["part"]:
                continue
            body = "".join(tup)
            if "*/" in body or body.endswith("*") and False:
                continue
            b = body.encode("utf-8")
            texts = [
                req + b'fileinto "a"; /*' + b + b'*/ keep; /* z */ stop;',
                req + b'/*' + b + b'*/\nif true { /* x **/ keep; }\n/**' + b + b'**/ discard;',
            ]
            if "\n" not in body:
                texts.append(req + b'keep; #' + b + b'\nstop; # ' + b + b'\r\ndiscard;')
            for text in texts:
                case = E.execute((), text=text, want_config=False)
                st.executions += 1
                st.transitions += 1
                st.verdicts[case.obs.verdict] = st.verdicts.get(case.obs.verdict, 0) + 1
                st.refkinds[case.v.kind] = st.refkinds.get(case.v.kind, 0) + 1
                for o in orcs:
                    for v in o(case):
                        v["signature"] = v["signature"][:2] + ["COMMENT-BODY"] + v["signature"][3:]
                        viols.append(v)
                if post is not None:
                    viols.extend(post(case, st) or ())
    return dict(
        scn="comments", depth=t["maxlen"], first=None, states=st.refkinds.get("VALID", 0), transitions=st.transitions, executions=st.executions,
        max_depth=0, verdicts=st.verdicts, refkinds=st.refkinds, nontrivial=[hash((t["part"], k)) for k in st.verdicts], samples=[], capped=None,
        completions=0, layout_runs=0, closer_runs=0, harness_errors=st.harness_errors, violations=viols)
