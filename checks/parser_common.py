"""Shared driver for the parser-family checks (C01, C02, C03, C04, C07, C18): run the parser scenarios
in parallel with a selected set of oracles and assemble coverage."""
import time

from mc import parser_engine as E, scenarios as S, pool, words

ORACLES = {
    "c01": E.oracle_c01,
    "c02": E.oracle_c02,
    "c03": E.oracle_c03,
    "c07walk": E.oracle_c07_walk,
    "c18": E.oracle_c18,
}

# (scenario factory, args, depth quick, depth thorough, split on first symbol)
PLAN = [
    ("flow", (), 7, 10, False),
    ("tests", (), 6, 8, True),
    ("lists", (), 6, 8, True),
    ("roles", (), 4, 5, True),
    ("roles_all", (), 3, 4, False),
    ("nondet", (), 5, 7, True),
    ("lex", (), 3, 4, True),
    ("macro", (), 3, 5, True),
    ("full", (), 2, 3, True),
]


def plan(tier, include_args=True, include_noreq=False, only=None):
    out = []
    for name, args, dq, dt, split in PLAN:
        if only and name not in only:
            continue
        out.append((name, args, dq if tier == "quick" else dt, split))
    if include_args:
        for c in S.all_commands():
            if only and "args" not in only:
                continue
            out.append(("args", (c,), 4 if tier == "quick" else 6, False))
    if include_noreq:
        for c in S.all_commands():
            out.append(("args_noreq", (c,), 5 if tier == "quick" else 6, False))
    return out


POSTS = {"c07removal": E.post_c07_removal, "c18suffix": E.post_c18_suffix, "c04": E.post_c04}


def make_tasks(tier, seed, oracles, layouts=(), layout_depth=2, budget_s=None, post=None, base_layout="space", **kw):
    tasks = []
    for name, args, depth, split in plan(tier, **kw):
        scn = getattr(S, "scn_" + name)(*args)
        base = dict(scn=name, args=args, depth=depth, oracles=list(oracles), layouts=list(layouts),
                    layout_depth=layout_depth, seed=seed, budget_s=budget_s, first=None, post=post, base_layout=base_layout)
        if split and depth >= 3:
            sig = list(scn["sigma"])
            # 1 task per first symbol
            for s in sig:
                t = dict(base)
                t["first"] = [s]
                tasks.append(t)
        else:
            tasks.append(base)
    return tasks


def task(t):
    scn = getattr(S, "scn_" + t["scn"])(*t["args"])
    orcs = [ORACLES[o] for o in t["oracles"]]
    deadline = time.time() + t["budget_s"] if t.get("budget_s") else None
    st, viols = E.bfs(scn, t["depth"], orcs, layouts=t["layouts"], layout_depth=t["layout_depth"],
                      order_seed=t["seed"], first_symbols=t["first"], deadline=deadline,
                      post=POSTS[t["post"]] if t.get("post") else None, base_layout=t.get("base_layout", "space"))
    return dict(
        scn=scn["name"], depth=t["depth"], first=t["first"], states=st.states, transitions=st.transitions,
        executions=st.executions, max_depth=st.max_depth, verdicts=st.verdicts, refkinds=st.refkinds,
        nontrivial=list(st.nontrivial), samples=st.samples, capped=st.capped, completions=st.completions,
        layout_runs=st.layout_runs, closer_runs=st.closer_runs, harness_errors=st.harness_errors, violations=viols,
    )


def assemble(results, extra_cov=None):
    cov = dict(states=0, transitions=0, executions=0)
    verdicts = {}
    refkinds = {}
    nontrivial = set()
    samples = []
    capped = []
    scn_info = {}
    harness = []
    viols = []
    compl = lay = closers = 0
    for r in results:
        cov["states"] += r["states"]
        cov["transitions"] += r["transitions"]
        cov["executions"] += r["executions"]
        for k, v in r["verdicts"].items():
            verdicts[k] = verdicts.get(k, 0) + v
        for k, v in r["refkinds"].items():
            refkinds[k] = refkinds.get(k, 0) + v
        nontrivial.update(r["nontrivial"])
        if r["samples"] and len(samples) < 10:
            samples.append(dict(scenario=r["scn"], **r["samples"][0]))
        if r["capped"]:
            capped.append(r["capped"])
        s = scn_info.setdefault(r["scn"], dict(depth=r["depth"], states=0, transitions=0, max_depth_reached=0))
        s["states"] += r["states"]
        s["transitions"] += r["transitions"]
        s["max_depth_reached"] = max(s["max_depth_reached"], r["max_depth"])
        harness.extend(r["harness_errors"])
        viols.extend(r["violations"])
        compl += r["completions"]
        closers += r.get("closer_runs", 0)
        lay += r["layout_runs"]
    coverage = dict(
        states=cov["states"],
        transitions=cov["transitions"],
        traces_validated_against_impl=cov["executions"],
        evaluations=cov["executions"],
        distinct_nontrivial=len(nontrivial),
        rule="E1: BFS over words of each scenario alphabet; every word is executed on the real Parser and on the "
             "reference PDA; a word is expanded only if (implementation configuration, reference configuration) is new. "
             "distinct_nontrivial = distinct keys of live states that are accepted or lie beyond the first token after "
             "the scenario prefix.",
        samples=samples or [{"note": "no accepted sample at depth>=2"}],
        exhaustive=not capped,
        impl_verdicts=verdicts,
        reference_verdicts=refkinds,
        scenarios=scn_info,
        caps_hit=capped,
        reference_completions_run=compl,
        closer_executions=closers,
        layout_executions=lay,
    )
    if extra_cov:
        coverage.update(extra_cov)
    return coverage, viols, harness


def replay_text(payload, oracles, post=None):
    """re-execute one recorded parser case without the explorer"""
    text = bytes.fromhex(payload["text_hex"])
    case = E.execute(tuple(payload.get("word") or ()), layout=payload.get("layout", "space"), text=text,
                     want_config=False)
    out = []
    for o in oracles:
        out.extend(ORACLES[o](case))
    return out


ASSUMPTIONS = [
    "reference model: RFC 5228 section 8 grammar + frozen language table (mc/refsieve/table.py, DESIGN.md Appendix A)",
    "state abstraction: generic vars(parser) snapshot taken at token exhaustion; audited by one-step bisimulation (C01)",
    "bounds: word length per scenario as listed under coverage.scenarios; string contents limited to the alphabets",
]
