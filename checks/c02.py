"""C02 — Parsing always terminates with a verdict: no exception, no hang.

(a) every execution of the parser scenarios (E1), (b) exhaustive byte-edit neighbourhoods of a corpus of
short scripts (E3), given as bytes, as str and through parse_file, on fresh and reused parsers,
(c) pumped families for the linear step bound."""
import itertools
import os
import shutil
import tempfile

from mc import pool, words, seams, parser_engine as E
from . import parser_common as PC

ORACLES = ["c02"]

CORPUS = [
    b'keep;',
    b'require "fileinto";\nfileinto "a";\n',
    b'if true { stop; }',
    b'if not exists ["a","b"] { discard; } else { keep; }',
    b'if size :over 10K { keep; }',
    b'# c\nif anyof (true, false) { keep; } /* c */',
    b'require "reject";\nreject text:\nab\n..c\n.\n;',
    b'if header :is "a\\"b" "\xc3\xa9" { keep; }',
    b'require ["imap4flags"];\nif hasflag "a" { addflag "b" ["c"]; }',
    b'if address :all :comparator "i;octet" "To" "x" { keep; }',
    b'require "vacation";\nvacation :days 1 :addresses ["a"] "r";',
    b'if allof (not true, header :matches "a" "*") { keep; } elsif false { stop; }',
    b'unknown; control; action; test; command;',
    b'/* caf\xe9 \xff */ keep; /* \xc3 */ stop;',
    b'# caf\xe9\nif true { keep; } # \xff\xfe',
    b'\xef\xbb\xbfif true { keep; }',  # a UTF-8 signature is not white space: a lexical error at offset 0
    b'\xef\xbb\xbf',
    b'redirect "100%"; stop "50% off %s %(x)d"; keep text:\n20%\n.\n;',  # format-string look-alikes, also as the unexpected token
]
EDIT_BYTES = [0x00, 0x22, 0x5C, 0x0A, 0x0D, 0x7B, 0x7D, 0x28, 0x5B, 0x2F, 0x2A, 0x23, 0x3A, 0x2E, 0x80, 0xC3, 0xFF,
              0x20, 0x61, 0x30, 0x3B, 0x2C, 0x29, 0x5D, 0x09, 0x0B, 0x0C, 0x1C, 0x85, 0xA0, 0x25]  # + HTAB and octets that only look like white space


def single_edits(s):
    n = len(s)
    for i in range(n + 1):
        yield s[:i]  # truncation
    for i in range(n):
        yield s[:i] + s[i + 1:]  # deletion
        for b in EDIT_BYTES:
            yield s[:i] + bytes([b]) + s[i + 1:]  # substitution
    for i in range(n + 1):
        for b in EDIT_BYTES:
            yield s[:i] + bytes([b]) + s[i:]  # insertion


def double_edits(s):
    seen = set()
    for e1 in single_edits(s):
        for e2 in single_edits_light(e1):
            if e2 not in seen:
                seen.add(e2)
                yield e2


LIGHT = [0x22, 0x5C, 0x0A, 0x7B, 0x28, 0x5B, 0x2A, 0xC3]


def single_edits_light(s):
    n = len(s)
    for i in range(n):
        yield s[:i] + s[i + 1:]
        for b in LIGHT:
            yield s[:i] + bytes([b]) + s[i + 1:]


def _judge(text, mode, reused, tmpdir, viols, counts, distinct, oracle=None):
    """mode: 'bytes' | 'str' | 'file'"""
    kw = {}
    arg = text
    if mode == "str":
        try:
            arg = text.decode("utf-8")
        except UnicodeDecodeError:
            return
    if mode == "file":
        path = os.path.join(tmpdir, "s.sieve")
        with open(path, "wb") as fp:
            fp.write(text)
        kw["via_file"] = path
    obs = seams.run_parse(arg, parser=reused, want_tree=(oracle is E.oracle_c03), **kw)
    counts[0] += 1
    c = E.Case()
    c.word = None
    c.layout = mode
    c.text = text
    c.raw = None
    c.obs = obs
    c.pda, c.toks, c.lerr = E.ref_run(text)
    c.v = c.pda.end(c.lerr)
    distinct.add((obs.verdict, obs.error if obs.error else None))
    for v in (oracle or E.oracle_c02)(c):
        v["mode"] = mode
        v["signature"] = v["signature"] + [mode if mode != "bytes" else None]
        viols.append(v)


def byte_task(t):
    idx, double, with_modes = t[:3]
    # the same neighbourhoods under another property's oracle (C01: verdict against the reference recogniser)
    oracle = {"c01": E.oracle_c01, "c03": E.oracle_c03}[t[3]] if len(t) > 3 else None
    ns = seams.load()
    s = CORPUS[idx]
    viols = []
    counts = [0]
    distinct = set()
    tmpdir = tempfile.mkdtemp(prefix="sievec02_")
    reused = ns.parser.Parser()
    try:
        gen = double_edits(s) if double else single_edits(s)
        for text in gen:
            _judge(text, "bytes", None, tmpdir, viols, counts, distinct, oracle)
            if with_modes:
                _judge(text, "bytes", reused, tmpdir, viols, counts, distinct)
                _judge(text, "str", None, tmpdir, viols, counts, distinct)
                _judge(text, "file", reused, tmpdir, viols, counts, distinct)
    finally:
        shutil.rmtree(tmpdir, ignore_errors=True)
    return dict(n=counts[0], distinct=len(distinct), violations=viols, sample=s.decode("utf-8", "replace"))


FAMILIES = {
    "commands": lambda n: b"keep;\n" * n,
    "blocks": lambda n: b"if true {\n" * n + b"keep;" + b"}" * n,
    "nots": lambda n: b"if " + b"not " * n + b"true { keep; }",
    "list": lambda n: b"require [" + b",".join([b'"a"'] * n) + b"];",
    "string": lambda n: b'redirect "' + b'a\\"' * n + b'";',
    "hash": lambda n: b"#" + b"x" * n + b"\nkeep;",
    "bracket": lambda n: b"/*" + b"*x/" * n + b"*/keep;",
    "multiline": lambda n: b'require "reject"; reject text:\n' + b"line\n" * n + b".\n;",
    "unterminated-string": lambda n: b'redirect "' + b"a" * n,
    "unterminated-comment": lambda n: b"/*" + b"*x" * n,
    "unterminated-multiline": lambda n: b'require "reject"; reject text:\n' + b"\n" * n,
    "unterminated-blocks": lambda n: b"if true {" * n,
    "elsif-chain": lambda n: b"if true {}" + b" elsif true {}" * n,
    "testlist": lambda n: b"if anyof (" + b",".join([b"true"] * n) + b") {keep;}",
    "nested-testlists": lambda n: b"if " + b"anyof (" * n + b"true" + b")" * n + b" {keep;}",
    "tags": lambda n: b'require "vacation"; vacation ' + b":mime " * n + b'"r";',
    "garbage": lambda n: b"&" * n,
    "numbers": lambda n: b"if size :over " + b"9" * n + b" {keep;}",
}
NESTING = {"blocks", "nots", "unterminated-blocks", "nested-testlists"}
# the same shapes after a require (work done only for scripts that load extensions must scale too)
for _name in ("blocks", "nots", "nested-testlists", "commands", "elsif-chain", "testlist", "list"):
    FAMILIES["req+" + _name] = (lambda n, f=FAMILIES[_name]: b'require ["fileinto", "copy"];\nfileinto :copy "x";\n' + f(n))
    if _name in NESTING:
        NESTING = NESTING | {"req+" + _name}


def pump_task(t):
    name, kmax = t
    viols = []
    rows = []
    import time

    n_exec = 0
    for k in range(1, kmax + 1):
        n = 2 ** k
        text = FAMILIES[name](n)
        t0 = time.perf_counter()
        obs = seams.run_parse(text, want_tree=False)
        dt = time.perf_counter() - t0
        n_exec += 1
        c = E.Case()
        c.word = None
        c.layout = "pumped"
        c.text = text[:200] + b"..." if len(text) > 400 else text
        c.raw = None
        c.obs = obs
        c.toks = []
        c.lerr = None
        c.pda = E.Pda()
        c.v = None
        rows.append((n, len(text), obs.steps, obs.verdict, round(dt, 4)))
        nl = text.count(b"\n")
        for v in _c02_light(c, nl, name, n):
            viols.append(v)
    return dict(family=name, rows=rows, violations=viols, n=n_exec)


def _c02_light(c, nl, family, n):
    """oracle_c02 without reference tokens (inputs are huge): verdict class, error shape, step bound"""
    obs = c.obs
    out = []

    def mk(direction, reason, what):
        return {"property": "C02", "signature": ["C02", direction, reason, "family:" + family, None, None], "what": what,
                "engine": "pump", "family": family, "n": n, "text": c.text.decode("utf-8", "replace"), "observed": obs.brief()}

    if obs.verdict == "SKIPPED":
        return out
    if obs.verdict == "HANG":
        out.append(mk("hang", "STEPS", "family %s n=%d: %s after %d lexer steps" % (family, n, obs.exc, obs.steps)))
    elif obs.verdict == "EXC":
        out.append(mk("exception", (obs.exc or "").split(":")[0], "family %s n=%d raised %s" % (family, n, obs.exc)))
    elif obs.verdict == "BADRET":
        out.append(mk("bad-return", "RET", "returned %r" % (obs.ret,)))
    elif obs.verdict == "REJ":
        m = E._LINE_RE.match(obs.error) if isinstance(obs.error, str) else None
        if not m or not (1 <= int(m.group(1)) <= 1 + nl):
            out.append(mk("error-format", "ERRFMT", "error=%r" % (obs.error,)))
        ep = obs.error_pos
        if not (isinstance(ep, tuple) and len(ep) == 3 and all(type(x) is int for x in ep)):
            out.append(mk("error-pos-shape", "ERRPOS", "error_pos=%r" % (ep,)))
    return out


def run(tier, seed):
    tasks = PC.make_tasks(tier, seed, ORACLES, layouts=["comments"], layout_depth=1, include_noreq=True)
    results = pool.run_tasks("checks.parser_common:task", tasks)
    results += pool.run_tasks("checks.parser_common:valid_task", PC.valid_tasks(tier, seed, ORACLES, post="reuse", layouts=["upper"], edit_layouts=["rawcomments"]))
    results += pool.run_tasks("checks.parser_common:comment_task", PC.comment_tasks(tier, ORACLES))
    cov, viols, harness = PC.assemble(results)
    viols = [v for v in viols if v["property"] == "C02"]
    # (b) byte-edit neighbourhoods
    bt = [(i, False, True) for i in range(len(CORPUS))]
    if tier == "thorough":
        bt += [(i, True, False) for i in range(len(CORPUS)) if len(CORPUS[i]) <= 40]
    rb = pool.run_tasks("checks.c02:byte_task", bt)
    nb = sum(r["n"] for r in rb)
    for r in rb:
        viols.extend(r["violations"])
    # (c) pumped families
    kmax = 13 if tier == "quick" else 16
    pt = [(name, min(kmax, 10 if tier == "quick" else 12) if name in NESTING else kmax) for name in sorted(FAMILIES)]
    rp = pool.run_tasks("checks.c02:pump_task", pt)
    for r in rp:
        viols.extend(r["violations"])
    npump = sum(r["n"] for r in rp)
    cov["traces_validated_against_impl"] += nb + npump
    cov["evaluations"] += nb + npump
    cov["transitions"] += nb + npump
    cov["distinct_nontrivial"] += sum(r["distinct"] for r in rb)
    cov["byte_edits"] = dict(corpus=len(CORPUS), edit_alphabet=["0x%02x" % b for b in EDIT_BYTES], executions=nb,
                             modes=["bytes/fresh parser", "bytes/reused parser", "str", "parse_file"],
                             double_edits=(tier == "thorough"), exhaustive=True)
    cov["pumped_families"] = {r["family"]: [dict(n=a, bytes=b, lexer_steps=c_, verdict=d, cpu_s_info_only=e) for a, b, c_, d, e in r["rows"][-3:]]
                              for r in rp}
    cov["samples"].append({"byte_edit_base": CORPUS[7].decode("utf-8")})
    cov["rule"] += (" C02 adds: all single-byte substitutions/insertions from the edit alphabet, all deletions and truncations of each "
                    "corpus script (thorough: double edits of scripts <= 40 bytes); pumped families n=2^k.")
    return dict(violations=viols, coverage=cov, harness_errors=harness,
                assumptions=PC.ASSUMPTIONS + ["step bound 3*len+16 lexer tokens is the hang/blow-up detector; CPU time inside one regex match is recorded, never judged"])


def replay(payload):
    if payload.get("engine") == "pump":
        text = FAMILIES[payload["family"]](payload["n"])
        obs = seams.run_parse(text, want_tree=False)
        c = E.Case()
        c.text = text[:200]
        c.obs = obs
        return _c02_light(c, text.count(b"\n"), payload["family"], payload["n"])
    text = bytes.fromhex(payload["text_hex"])
    mode = payload.get("mode", "bytes")
    viols = []
    tmpdir = tempfile.mkdtemp(prefix="sievec02_")
    try:
        _judge(text, mode if mode in ("bytes", "str", "file") else "bytes", None, tmpdir, viols, [0], set())
    finally:
        shutil.rmtree(tmpdir, ignore_errors=True)
    return viols
