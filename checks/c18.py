"""C18 — Parse errors point at the offending place."""
from mc import pool, words, parser_engine as E
from . import parser_common as PC

ORACLES = ["c18"]


def run(tier, seed):
    tasks = PC.make_tasks(tier, seed, ORACLES, layouts=["lf", "crlf", "comments"], layout_depth=2, post="c18suffix",
                          base_layout="mixed", include_noreq=True)
    results = pool.run_tasks("checks.parser_common:task", tasks)
    results += pool.run_tasks("checks.parser_common:valid_task", PC.valid_tasks(tier, seed, ORACLES, post="c18suffix+reuse", base_layout="leadlf", bare_edits=True, edit_layouts=(["mixed"] if tier == "quick" else ["mixed", "lf", "crlf", "comments"])))
    cov, viols, harness = PC.assemble(results)
    cov["rule"] += (" C18: base layout 'mixed' (cycling blank, LF, inline bracket comment with multi-byte text, CRLF, hash comment, "
                    "tab, blank line) so tokens land on many (line, byte column) positions; every rejected word is compared with the "
                    "reference's first invalidating token and re-run with 4 suffixes; every generated form and single-token edit is also parsed on "
                    "a parser that has just refused another multi-line script (same error and error_pos as on a fresh parser).")
    return dict(violations=viols, coverage=cov, harness_errors=harness, assumptions=PC.ASSUMPTIONS)


def replay(payload):
    text = bytes.fromhex(payload["text_hex"])
    sig = payload["signature"]
    if sig[1] == "suffix-dependent":
        base = E.execute((), text=bytes.fromhex(payload["base_text_hex"]), want_config=False)
        c2 = E.execute((), text=text, want_config=False)
        if c2.obs.verdict != "REJ" or c2.obs.error != base.obs.error or c2.obs.error_pos != base.obs.error_pos:
            return [E.viol("C18", "suffix-dependent", c2, what="suffix changes the reported error")]
        return []
    return PC.replay_text(payload, ORACLES)
