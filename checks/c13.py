"""C13 — Parsing and filter building are independent of what happened before.

E1 over histories of events on a small object pool (two reused parsers, fresh parsers, two FiltersSets);
oracle: every event's outcome equals the outcome of the projection of the history onto the same object,
executed in a pristine interpreter (forked from a parent that has imported sievelib and executed nothing)."""
import copy
import io
import itertools
import types

from mc import pool, seams, canon

SCRIPTS = [
    'require ["regex","relational","fileinto"];\nif header :regex "a" "b" { fileinto "x"; }\n',
    'require ["imap4flags"];\naddflag "a";\n',
    'if true { keep; }\n',
    'require ["a", ;',
    'if true { foo; }',
    'if anyof (true, header ["a" {',
    'if header :regex "a" "b" { keep; }',
    'keep;\n# Filter: x\n# trailing',
    '',
    'fileinto "a";',
    'require ["date","relational"];\nif currentdate :value "ge" "date" "2019" { keep; }',
    'if address :count "ge" "to" "3" { keep; }',
    # commands registered with add_commands (ensure_custom): classes derived from concrete built-in commands, with more required arguments
    # (the built-in bases in one script, the derived commands in another: which one a process meets first must not matter)
    'redirect "b@example.com";\nif exists "to" { keep; }\n',
    'fwdtwo "a@example.com" "hello";\nif existsin "to" "INBOX" { keep; }\n',
    # a value that one script declares (comparator-*) and uses in a restricted-value slot, and another script that uses it undeclared
    'require "comparator-i;ascii-numeric";\nif header :comparator "i;ascii-numeric" "a" "b" { keep; }\nif header :comparator "i;octet" "a" "b" { keep; }\n',
    'if header :comparator "i;ascii-numeric" "a" "b" { keep; }',
    # a str that cannot be encoded as UTF-8 (lone surrogate, e.g. from surrogateescape file reading): whatever parse() does with it,
    # it does the same on a fresh and on a reused parser
    'keep;\n# \udce9\nstop;\n',
    # refused in the middle of hasflag's non-deterministic arguments (the parser rewinds its lexer there)
    'require "imap4flags";\nif hasflag {',
    '# first\nkeep;\n',
    # the two spellings of a tag parameter whose declared type is the scalar "stringlist" (serialising one must not change how the other parses)
    'require "body";\nif body :content ["text", "html"] :contains "x" { keep; }\n',
    'require "body";\nif body :content "text" :contains "x" { keep; }\n',
    # an accepted script whose last bracketed list belongs to a test (the list the parser was filling last)
    'if header :is ["Subject", "X-Subject"] ["alpha", "beta"] { keep; }\n',
]
FS_OPS = [
    ("add-plain", [("Subject", ":is", "x")], [("fileinto", "B")]),
    ("add-header-regex", [("Subject", ":regex", "a.*")], [("keep",)]),
    ("add-envelope-regex", [("envelope", ":regex", ["From"], ["a"])], [("keep",)]),
    ("add-currentdate-value", [("currentdate", ":zone", "+0100", ":value", "ge", "date", "2019")], [("keep",)]),
    ("add-fileinto-copy", [("Subject", ":contains", "x")], [("fileinto", ":copy", "B")]),
    ("str", None, None),
    ("from_parser_result", None, None),
    ("add-body-regex", [("body", ":raw", ":regex", "x+")], [("discard",)]),
    ("add-fileinto-Copy-mixedcase", [("Subject", ":contains", "x")], [("fileinto", ":Copy", ":CREATE", "B")]),
    ("add-header-Regex-mixedcase", [("Subject", ":Regex", "a.*")], [("keep", ":Flags", "\\Seen")]),
    ("add-fwdtwo-custom", [("Subject", ":is", "x")], [("fwdtwo", "a@example.com", "hello")]),
]


def ensure_custom(ns):
    """registers (idempotently, without executing any command code) two commands derived from concrete built-in ones"""
    C = ns.commands
    if getattr(C, "FwdtwoCommand", None) is not None:
        return

    class FwdtwoCommand(C.RedirectCommand):
        args_definition = [{"name": "address", "type": ["string"], "required": True}, {"name": "note", "type": ["string"], "required": True}]

    class ExistsinCommand(C.ExistsCommand):
        args_definition = [{"name": "header-names", "type": ["string", "stringlist"], "required": True},
                           {"name": "mailbox", "type": ["string"], "required": True}]

    C.add_commands([FwdtwoCommand, ExistsinCommand])


def parse_outcome(ns, parser, text, via_file=False):
    if via_file:
        import os
        import tempfile
        fd, path = tempfile.mkstemp(prefix="verif_c13_", suffix=".sieve")
        try:
            with os.fdopen(fd, "w", encoding="utf-8", errors="surrogatepass") as f:
                f.write(text)
            obs = seams.run_parse(text, parser=parser, via_file=path)
        finally:
            os.unlink(path)
        if isinstance(obs.error, str):
            obs.error = obs.error.replace(path, "<file>")
    else:
        obs = seams.run_parse(text, parser=parser)
    ser = None
    if obs.verdict == "ACC":
        buf = io.StringIO()
        try:
            for c in parser.result:
                c.tosieve(target=buf)
            ser = buf.getvalue()
        except Exception as e:  # noqa
            ser = "EXC:" + type(e).__name__
    return (obs.verdict, obs.error, obs.error_pos, obs.tree, ser, obs.exc)


FPR_SCRIPTS = (0, 1, 2, 10, 21)  # from_parser_result(P1) is enabled when P1's last parse was one of these (all accepted)


def fs_outcome(ns, fs, op_i, parser=None):
    if isinstance(op_i, tuple):
        # ("fprs", i): load from a parser whose last parse was SCRIPTS[i]; in a history that parser is the shared P1,
        # in the pristine baseline a fresh parser that parsed exactly that script
        try:
            if parser is None:
                parser = ns.parser.Parser()
                parser.parse(SCRIPTS[op_i[1]])
            r = ("ret", repr(fs.from_parser_result(parser)))
        except Exception as e:  # noqa
            r = ("exc", type(e).__name__ + ": " + str(e)[:80])
        try:
            rendering = str(fs)
        except Exception as e:  # noqa
            rendering = "EXC:" + type(e).__name__
        return (r, rendering, tuple(fs.requires))
    name, conds, acts = FS_OPS[op_i]
    try:
        if name == "str":
            r = ("ret", str(fs))
        elif name == "from_parser_result":
            p = ns.parser.Parser()
            p.parse(SCRIPTS[0])
            r = ("ret", repr(fs.from_parser_result(p)))
        else:
            r = ("ret", repr(fs.addfilter("f%d" % len(fs.filters), list(conds), list(acts))))
    except Exception as e:  # noqa
        r = ("exc", type(e).__name__ + ": " + str(e)[:80])
    try:
        rendering = str(fs)
    except Exception as e:  # noqa
        rendering = "EXC:" + type(e).__name__
    return (r, rendering)


# ---- generic save/restore of module-level and class-level mutable state ------------------------

_saved = None


def _is_state(v):
    return not (callable(v) or isinstance(v, (types.ModuleType, classmethod, staticmethod, property, type)))


def _holders(ns):
    """the sievelib modules and every class found in them (incl. classes registered with add_commands)"""
    mods = [ns.commands, ns.parser, ns.factory, ns.tools]
    seen = set()
    for m in mods:
        yield m
        for v in list(vars(m).values()):
            if isinstance(v, type) and id(v) not in seen and (getattr(v, "__module__", "").startswith("sievelib") or issubclass(v, ns.commands.Command)):
                seen.add(id(v))
                yield v


def _mutable_slots(ns):
    for h in _holders(ns):
        for k, v in list(vars(h).items()):
            if k.startswith("__") or not _is_state(v):
                continue
            if isinstance(h, types.ModuleType) and not isinstance(v, (list, dict, set)):
                continue  # module-level constants / typing aliases
            yield (h, k)


def save_state(ns):
    """every module-level container and every non-callable class attribute (containers deep-copied), plus the set of attribute names, so
    that attributes a history adds to a class (e.g. a memo) are removed again before the next history"""
    global _saved
    _saved = ([(o, k, copy.deepcopy(getattr(o, k))) for o, k in _mutable_slots(ns)], {id(h): (h, set(vars(h))) for h in _holders(ns) if isinstance(h, type)})


def restore_state(ns):
    slots, names = _saved
    for h, keys in names.values():
        for k in list(vars(h)):
            if k not in keys and not k.startswith("__"):
                try:
                    delattr(h, k)
                except Exception:  # noqa
                    pass
    for o, k, v in slots:
        setattr(o, k, copy.deepcopy(v))


def state_fingerprint(ns):
    out = []
    for o, k in _mutable_slots(ns):
        try:
            out.append((getattr(o, "__name__", str(o)), k, repr(getattr(o, k))))
        except Exception:  # noqa
            pass
    return tuple(out)


# ---- pristine baselines -------------------------------------------------------------------------


def baseline_task(t):
    """runs in a process forked from a parent that never executed sievelib code (maxtasksperchild=1)"""
    ns = seams.load()
    ensure_custom(ns)
    kind = t[0]
    if kind == "parse":
        p = ns.parser.Parser()
        return (t, parse_outcome(ns, p, SCRIPTS[t[1]]))
    # ("fs", (op, op, ...)) -> outcome of every op in order
    fs = ns.factory.FiltersSet("t")
    outs = []
    for op_i in t[1]:
        outs.append(fs_outcome(ns, fs, op_i))
    return (t, outs)


def events():
    ev = []
    for which in ("P1", "P2", "PF"):
        for i in range(len(SCRIPTS)):
            ev.append(("parse", which, i))
    # the shared parser also reads scripts through parse_file (same outcome as parse of the same text, nothing left behind)
    for i in (0, 2, 4):
        ev.append(("parsefile", "P1", i))
    for which in ("F1", "F2"):
        for i in range(len(FS_OPS)):
            ev.append(("fs", which, i))
        ev.append(("fs", which, "fpr-P1"))
    return ev


def ev_label(ev):
    if ev[0] == "parse":
        return "%s.parse(script%d)" % (ev[1], ev[2])
    if ev[0] == "parsefile":
        return "%s.parse_file(script%d)" % (ev[1], ev[2])
    if ev[2] == "fpr-P1":
        return "%s.from_parser_result(P1)" % ev[1]
    return "%s.%s" % (ev[1], FS_OPS[ev[2]][0])


def run_history(ns, hist, base_parse, base_fs):
    """-> None | (event index, clause, text)"""
    restore_state(ns)
    objs = {"P1": ns.parser.Parser(), "P2": ns.parser.Parser(), "F1": ns.factory.FiltersSet("t"), "F2": ns.factory.FiltersSet("t")}
    proj = {"F1": [], "F2": []}
    last_p1 = None
    held = []  # (event index, the result list an accepted parse handed out, its tree in a pristine interpreter)
    for k, ev in enumerate(hist):
        if ev[0] == "fs" and ev[2] == "fpr-P1":
            if last_p1 not in FPR_SCRIPTS:
                return "skip"
            op = ("fprs", last_p1)
            proj[ev[1]].append(op)
            got = fs_outcome(ns, objs[ev[1]], op, parser=objs["P1"])
            want = base_fs[tuple(proj[ev[1]])][-1]
            if got != want:
                what = "outcome" if got[0] != want[0] else ("rendering" if got[1] != want[1] else "requires")
                return (k, "filters:" + what, "%s (P1 last parsed script%d) gives %r, in a pristine interpreter %r" % (
                    ev_label(ev), last_p1, _short(got), _short(want)))
            continue
        if ev[0] in ("parse", "parsefile"):
            p = objs[ev[1]] if ev[1] != "PF" else ns.parser.Parser()
            if ev[1] == "P1":
                last_p1 = ev[2]
            got = parse_outcome(ns, p, SCRIPTS[ev[2]], via_file=(ev[0] == "parsefile"))
            want = base_parse[ev[2]]
            if got != want:
                what = "verdict/error" if got[:3] != want[:3] else ("tree" if got[3] != want[3] else "serialisation")
                return (k, "parse:" + what, "%s gives %r, pristine interpreter gives %r" % (ev_label(ev), _short(got), _short(want)))
            if got[0] == "ACC" and isinstance(getattr(p, "result", None), list):
                held.append((k, p.result, want[3]))
        else:
            proj[ev[1]].append(ev[2])
            got = fs_outcome(ns, objs[ev[1]], ev[2])
            want = base_fs[tuple(proj[ev[1]])][-1]
            if got != want:
                what = "outcome" if got[0] != want[0] else "rendering"
                return (k, "filters:" + what, "%s gives %r, the same object's own history in a pristine interpreter gives %r" % (
                    ev_label(ev), _short(got), _short(want)))
    # what an accepted parse handed out stays what it was, whatever the same or another object did afterwards (every prefix is a
    # history of its own: looking after the last event is enough)
    for k0, res, tree in held:
        if k0 == len(hist) - 1:
            continue
        try:
            now = canon.tree_of_result(res, ns)
        except Exception as e:  # noqa
            now = ("CANON-ERROR", type(e).__name__)
        if now != tree:
            return (len(hist) - 1, "parse:held-tree", "the tree handed out by %s reads differently after %s: %r, it was %r" % (
                ev_label(hist[k0]), ev_label(hist[-1]), _short(now), _short(tree)))
    return None


def _short(o):
    s = repr(o)
    return s if len(s) < 160 else s[:157] + "..."


def hist_task(t):
    first, depth, base_parse, base_fs = t
    ns = seams.load()
    ensure_custom(ns)
    if _saved is None:
        save_state(ns)
    evs = events()
    viols = []
    n = 0
    states = set()

    def rec(hist):
        nonlocal n
        bad = run_history(ns, hist, base_parse, base_fs)
        if bad == "skip":
            return
        n += 1
        if bad:
            k, clause, text = bad
            culprit = hist[k]
            prev = [e for e in hist[:k]]
            viols.append({"property": "C13", "engine": "factory",
                          "signature": ["C13", ev_label(culprit).split(".", 1)[1] if culprit[0] == "fs" else "%s(script%d)" % ("parse_file" if culprit[0] == "parsefile" else "parse", culprit[2]),
                                        "after:" + (ev_label(prev[-1]).split(".", 1)[1] if prev else "nothing"), clause],
                          "fs_alphabet": "v3",
                          "what": "history %s: %s" % (" ; ".join(ev_label(e) for e in hist[:k + 1]), text),
                          "case": {"history": [list(e) for e in hist[:k + 1]]},
                          "witness": " ; ".join(ev_label(e) for e in hist[:k + 1]), "observed": text[:200]})
            return
        states.add(state_fingerprint(ns))
        if len(hist) < depth:
            for ev in evs:
                # fs histories longer than the baselines' bound are not enumerated
                rec(hist + [ev])

    rec([evs[first]])
    return dict(n=n, states=len(states), violations=viols)


REP_FAIL = [3, 4, 5, 6, 11, 17]      # scripts refused at different points (open list, unknown command in a block, open test list, ...)
REP_PROBE = [0, 2, 5, 9, 10]


def rep_task(t):
    """repetition ladder: ONE parser refuses the same script N times (N = 1, 2, 4, ... - anything that accumulates per failure shows
    at some N), then parses the probes; every outcome must equal the pristine one"""
    fi, top, base_parse = t
    ns = seams.load()
    ensure_custom(ns)
    if _saved is None:
        save_state(ns)
    restore_state(ns)
    viols = []
    n = 0
    p = ns.parser.Parser()
    done = 0
    for k in range(0, top + 1):
        N = 2 ** k
        while done < N:
            seams.run_parse(SCRIPTS[fi], parser=p, want_tree=False)
            done += 1
            n += 1
        for pi in REP_PROBE + [fi]:
            got = parse_outcome(ns, p, SCRIPTS[pi])
            n += 1
            if got != base_parse[pi]:
                viols.append({"property": "C13", "engine": "factory", "signature": ["C13", "parse(script%d)" % pi, "after:%d x script%d" % (N, fi), "parse:repetition"],
                              "what": "one parser refused script%d %d times, then script%d gives %s, pristine interpreter gives %s" % (fi, N, pi, _short(got), _short(base_parse[pi])),
                              "case": {"rep": [fi, k]}, "witness": "%d x P.parse(script%d) ; P.parse(script%d)" % (N, fi, pi), "observed": _short(got)})
                return dict(n=n, states=0, violations=viols)
    return dict(n=n, states=0, violations=viols)


def run(tier, seed):
    depth = 3 if tier == "quick" else 4
    # pristine baselines first: the parent has imported sievelib (seams.load in workers' parent) but executed nothing
    seams.load()
    btasks = [("parse", i) for i in range(len(SCRIPTS))]
    alphabet = list(range(len(FS_OPS))) + [("fprs", i) for i in FPR_SCRIPTS]
    for L in range(1, depth + 1):
        for seq in itertools.product(alphabet, repeat=L):
            btasks.append(("fs", seq))
    bres = pool.run_tasks("checks.c13:baseline_task", btasks, fresh_each=True, chunksize=1)
    base_parse = {}
    base_fs = {}
    for t, out in bres:
        if t[0] == "parse":
            base_parse[t[1]] = out
        else:
            base_fs[tuple(t[1])] = out
    evs = events()
    # thorough: histories of 4 events start with an event on the shared parser P1 (scripts of the original pool) or on F1; every other first
    # event is followed to 3 events (the full product of 4 took an hour for ~75 events)
    def dep(i):
        if depth < 4:
            return depth
        e = evs[i]
        return 4 if (e[1] == "P1" and e[2] < 12) or e[1] == "F1" else 3

    res = pool.run_tasks("checks.c13:hist_task", [(i, dep(i), base_parse, base_fs) for i in range(len(evs))])
    res += pool.run_tasks("checks.c13:rep_task", [(fi, 10 if tier == "quick" else 14, base_parse) for fi in REP_FAIL])
    n = sum(r["n"] for r in res)
    viols = []
    for r in res:
        viols.extend(r["violations"])
    # other Parser objects at work *during* a parse (re-entrant or threaded use): every schedule up to a preemption bound of two or
    # three parses of core-only scripts on distinct objects; each outcome must equal that of the script parsed alone (checks/c03.py)
    from . import c03
    ob = 2 if tier == "quick" else 3
    ro = pool.run_tasks("checks.c03:overlap_task", [(g, ob if len(g) == 2 else ob - 1, "C13") for g in c03.overlap_groups(tier)])
    for r in ro:
        viols.extend(r["violations"])
    n_overlap = sum(r["n"] for r in ro)
    rp = pool.run_tasks("checks.c13:pollute_task", [(i, 16) for i in range(16)], fresh_each=True, chunksize=1)
    cands = [c for r in rp for c in r["candidates"]][:64]
    n_pollute = sum(r["n"] for r in rp)
    if cands:
        for r in pool.run_tasks("checks.c13:alone_task", cands, fresh_each=True, chunksize=1):
            if r["alone_ok"] and r["alone"] != r["after"]:
                from mc import words as _w
                viols.append({"property": "C13", "engine": "parser", "signature": ["C13", "parse", "after:whole-language", "verdict-depends-on-history", r["word"][len(S_PREFIX()):][0:2][-1]],
                              "what": "after every command's valid forms and the factory's definitions were used in the process, %r gives %s; alone in a fresh interpreter %s" % (
                                  _w.show(tuple(r["word"]))[-120:], r["after"], r["alone"]),
                              "case": {"pollute_word": r["word"]}, "witness": _w.show(tuple(r["word"]))[-160:], "observed": r["after"]})
    cov = dict(overlap_schedules=n_overlap, polluted_process_probes=n_pollute, states=sum(r["states"] for r in res), transitions=n * depth + n_overlap, traces_validated_against_impl=n, evaluations=n,
               distinct_nontrivial=len(btasks),
               rule="E1: every history of <= %d of the %d events (parse of %d scripts on reused parser P1 / reused parser P2 / a fresh parser; %d FiltersSet "
                    "operations on F1 / F2) without deduplication; each event's outcome (verdict, error, error_pos, tree, serialisation; or return/exception "
                    "and rendering) is compared with the outcome of the history's projection onto the same object computed in a pristine forked interpreter "
                    "(%d baselines); distinct_nontrivial = number of pristine baselines; states = distinct fingerprints of module/class level mutable state" % (
                        depth, len(evs), len(SCRIPTS), len(FS_OPS), len(btasks)),
               samples=[{"history": [ev_label(e) for e in (evs[0], evs[len(SCRIPTS) * 3 + 1], evs[6])]}], exhaustive=True, pristine_baselines=len(btasks))
    return dict(violations=viols, coverage=cov, harness_errors=[],
                assumptions=["between histories all list/dict/set attributes of the sievelib modules and their classes are restored generically; "
                             "within a history nothing is reset"])


# ---- the whole language in a process that has seen the whole language ---------------------------------------------------------
# (state that builds up across objects - memo tables, caches keyed too coarsely - shows when a use that is legal for one command has
# been seen before the same tag / value is tried on another command)

def _probe_words(part, parts):
    from mc import validgen as G, scenarios as S
    k = 0
    for c in S.all_commands():
        for w in G.crosstag_scripts(c):
            k += 1
            if k % parts == part:
                yield G.PREFIX + tuple(w)
        for w in G.command_scripts(c, max_slots=1, max_forms=30):
            k += 1
            if k % parts == part:
                yield G.PREFIX + tuple(w)


def pollute_task(t):
    """every valid form of every command is parsed (fresh parsers) and every definition of the factory pool is added to a FiltersSet;
    THEN every probe (each tag any command knows on every other command; valid forms again) is parsed: a verdict that differs from
    the reference's is a candidate, confirmed (run) by parsing the same probe alone in a fresh interpreter"""
    part, parts = t
    from mc import validgen as G, scenarios as S, parser_engine as E, factory_engine as F
    ns = seams.load()
    n = 0
    for c in S.all_commands():
        for w in G.command_scripts(c, max_slots=1, max_forms=30):
            E.execute(G.PREFIX + tuple(w), want_config=False)
            n += 1
    for w in G.test_scripts(1):
        E.execute(G.PREFIX + tuple(w), want_config=False)
        n += 1
    fs = F.new_set(ns)
    for d, (c, a, mt) in sorted(F.DEFS.items()):
        try:
            fs.addfilter(d, list(c), list(a), mt)
            str(fs)
        except Exception:  # noqa
            pass
        n += 1
    cands = []
    for w in _probe_words(part, parts):
        case = E.execute(w, want_config=False)
        n += 1
        if E.oracle_c01(case):
            cands.append((list(w), case.obs.brief()))
    return dict(n=n, candidates=cands)


def alone_task(t):
    """the probe alone in a fresh interpreter: -> (word, outcome there, does it agree with the reference there)"""
    w, after = t
    from mc import parser_engine as E
    case = E.execute(tuple(w), want_config=False)
    return dict(word=w, after=after, alone=case.obs.brief(), alone_ok=not E.oracle_c01(case))


def replay_task(t):
    hist, base_parse, base_fs = t
    ns = seams.load()
    ensure_custom(ns)
    if _saved is None:
        save_state(ns)
    return run_history(ns, hist, base_parse, base_fs)


def S_PREFIX():
    from mc import validgen as G
    return G.PREFIX


def replay(payload):
    if payload.get("case", {}).get("pollute_word"):
        w = payload["case"]["pollute_word"]
        out = []
        for r in pool.run_tasks("checks.c13:pollute_task", [(i, 16) for i in range(16)], fresh_each=True, chunksize=1):
            for c in r["candidates"]:
                if c[0] == w:
                    a = pool.run_tasks("checks.c13:alone_task", [c], fresh_each=True, chunksize=1)[0]
                    if a["alone_ok"] and a["alone"] != a["after"]:
                        out.append({"property": "C13", "signature": payload["signature"], "what": "verdict depends on history", "witness": payload.get("witness"), "observed": a["after"]})
        return out
    """everything runs in forked workers so that the calling process stays pristine"""
    seams.load()
    if payload["case"].get("rep"):
        seams.load()
        bres = pool.run_tasks("checks.c13:baseline_task", [("parse", i) for i in range(len(SCRIPTS))], fresh_each=True, chunksize=1)
        base_parse = {t[1]: out for t, out in bres}
        fi, k = payload["case"]["rep"]
        return pool.run_tasks("checks.c13:rep_task", [(fi, k, base_parse)], force_pool=True)[0]["violations"]
    if payload["case"].get("overlap"):
        from . import c03
        return c03.replay(payload)
    hist = [tuple(e) for e in payload["case"]["history"]]
    depth = len([e for e in hist if e[0] == "fs"]) or 1
    btasks = [("parse", i) for i in range(len(SCRIPTS))]
    alphabet = list(range(len(FS_OPS))) + [("fprs", i) for i in FPR_SCRIPTS]
    for L in range(1, depth + 1):
        for seq in itertools.product(alphabet, repeat=L):
            btasks.append(("fs", seq))
    bres = pool.run_tasks("checks.c13:baseline_task", btasks, fresh_each=True, chunksize=1)
    base_parse = {t[1]: out for t, out in bres if t[0] == "parse"}
    base_fs = {tuple(t[1]): out for t, out in bres if t[0] == "fs"}
    bad = pool.run_tasks("checks.c13:replay_task", [(hist, base_parse, base_fs)], force_pool=True)[0]
    if bad:
        sig = list(payload["signature"])
        sig[3] = bad[1]
        return [{"property": "C13", "signature": sig, "what": bad[2], "witness": payload.get("witness"), "observed": bad[2][:200]}]
    return []
