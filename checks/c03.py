"""C03 — see DESIGN.md section 3."""
from mc import pool, words, parser_engine as E
from . import parser_common as PC

ORACLES = ["c03"]


def run(tier, seed):
    tasks = PC.make_tasks(tier, seed, ORACLES, layouts=["comments"], layout_depth=1)
    results = pool.run_tasks("checks.parser_common:task", tasks)
    results += pool.run_tasks("checks.parser_common:valid_task", PC.valid_tasks(tier, seed, ORACLES, post="reuse"))
    results += pool.run_tasks("checks.parser_common:comment_task", PC.comment_tasks(tier, ORACLES))
    cov, viols, harness = PC.assemble(results)
    from . import c04
    maxlen, maxlines = (3, 2) if tier == "quick" else (4, 3)
    r3 = pool.run_tasks("checks.c04:e3_task", [("str", i, maxlen, "c03") for i in range(len(c04.SLOTS))] + [("ml", i, maxlines, "c03") for i in range(len(c04.ML_SLOTS))])
    n3 = sum(r["n"] for r in r3)
    for r in r3:
        viols.extend(r["violations"])
    cov["transitions"] += n3
    cov["traces_validated_against_impl"] += n3
    cov["evaluations"] += n3
    cov["states"] += sum(r["acc"] for r in r3)
    cov["value_product"] = dict(chars=c04.CHARS, max_len=maxlen, ml_lines=c04.ML_LINES, ml_max_lines=maxlines, cases=n3,
                                slots=[s[0] for s in c04.SLOTS] + [s[0] for s in c04.ML_SLOTS], exhaustive=True)
    lt = [(m, L, S) for m in ("bytes", "str", "file") for L in LINE_LENGTHS for S in ladder_sizes(tier)]
    rl = pool.run_tasks("checks.c03:ladder_task", sorted(lt, key=lambda t: -t[2]))
    nl = sum(r["n"] for r in rl)
    for r in rl:
        viols.extend(r["violations"])
    cov["transitions"] += nl
    cov["traces_validated_against_impl"] += nl
    cov["evaluations"] += nl
    cov["size_ladder"] = dict(sizes=ladder_sizes(tier), line_lengths=list(LINE_LENGTHS), modes=["bytes", "str", "file"], executions=nl,
                              rule="scripts of n commands with n*L just under / at / just over each size; result must hold all n commands")
    viols = [v for v in viols if v["property"] == "C03"]
    return dict(violations=viols, coverage=cov, harness_errors=harness, assumptions=PC.ASSUMPTIONS)


# ---------------------------------------------------------------------------------------------
# E3: size ladder - scripts just under / at / just over every power of two and of ten, through parse(bytes), parse(str)
# and parse_file; the result must hold every command of the script (the last one is the only "stop")

LINE_LENGTHS = (5, 8, 32)


def ladder_sizes(tier):
    top2, top10 = (21, 6) if tier == "quick" else (23, 7)
    return sorted({2 ** k for k in range(10, top2 + 1)} | {10 ** k for k in range(3, top10 + 1)})


def ladder_script(n, L):
    pad = "" if L == 5 else " #" + "x" * (L - 8) + "\n"
    return ("keep;" + pad) * (n - 1) + "stop;" + pad


def ladder_case(mode, L, n):
    import os
    import tempfile
    text = ladder_script(n, L)
    path = None
    try:
        if mode == "file":
            fd, path = tempfile.mkstemp(prefix="verif_c03_", suffix=".sieve")
            with os.fdopen(fd, "w") as f:
                f.write(text)
            o = E.seams.run_parse(text, via_file=path, want_tree=False, keep_parser=True)
        else:
            o = E.seams.run_parse(text.encode() if mode == "bytes" else text, want_tree=False, keep_parser=True)
    finally:
        if path:
            os.unlink(path)
    if o.verdict != "ACC":
        # a refusal of a valid script is C01's business, not a misrepresentation
        return "C01: %d commands (%d bytes) through %s: %s" % (n, len(text), mode, o.brief()[:120])
    res = o.parser.result
    names = [getattr(c, "name", None) for c in res]
    if len(res) != n or names[-1:] != ["stop"] or names.count("keep") != n - 1:
        return "%d commands (%d bytes) through %s accepted, result holds %d commands ending in %r" % (n, len(text), mode, len(res), names[-1:])
    return None


def ladder_task(t):
    mode, L, S = t[:3]
    prop = t[3] if len(t) > 3 else "C03"
    viols = []
    n_exec = 0
    for n in sorted({max(1, S // L - 1), max(1, S // L), S // L + 1, S // L + 2}):
        n_exec += 1
        bad = ladder_case(mode, L, n)
        if bad and bad.startswith("C01:") != (prop == "C01"):
            bad = None
        if bad:
            viols.append({"property": prop, "engine": "parser", "signature": [prop, "size-ladder", mode, "line%d" % L, "S=%d" % S],
                          "what": bad, "case": {"ladder": [mode, L, n]}, "witness": "ladder_script(%d, %d) via %s" % (n, L, mode), "observed": bad})
    return dict(n=n_exec, violations=viols)


def replay(payload):
    if payload.get("case", {}).get("ladder"):
        mode, L, n = payload["case"]["ladder"]
        bad = ladder_case(mode, L, n)
        prop = payload["signature"][0]
        if bad and bad.startswith("C01:") != (prop == "C01"):
            bad = None
        return [{"property": prop, "signature": payload["signature"], "what": bad, "witness": payload.get("witness"), "observed": bad}] if bad else []
    return PC.replay_text(payload, ORACLES)
