"""C03 — see DESIGN.md section 3."""
from mc import pool, words
from . import parser_common as PC

ORACLES = ["c03"]


def run(tier, seed):
    tasks = PC.make_tasks(tier, seed, ORACLES, layouts=["comments"], layout_depth=1)
    results = pool.run_tasks("checks.parser_common:task", tasks)
    results += pool.run_tasks("checks.parser_common:valid_task", PC.valid_tasks(tier, seed, ORACLES, post="reuse"))
    results += pool.run_tasks("checks.parser_common:comment_task", PC.comment_tasks(tier, ORACLES))
    cov, viols, harness = PC.assemble(results)
    viols = [v for v in viols if v["property"] == "C03"]
    return dict(violations=viols, coverage=cov, harness_errors=harness, assumptions=PC.ASSUMPTIONS)


def replay(payload):
    return PC.replay_text(payload, ORACLES)
