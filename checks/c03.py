"""C03 — see DESIGN.md section 3."""
from mc import pool, words, parser_engine as E
from . import parser_common as PC

ORACLES = ["c03"]


def run(tier, seed):
    tasks = PC.make_tasks(tier, seed, ORACLES, layouts=["comments"], layout_depth=1)
    results = pool.run_tasks("checks.parser_common:task", tasks)
    results += pool.run_tasks("checks.parser_common:valid_task", PC.valid_tasks(tier, seed, ORACLES, post="reuse"))
    results += pool.run_tasks("checks.parser_common:comment_task", PC.comment_tasks(tier, ORACLES))
    cov, viols, harness = PC.assemble(results)
    from . import c04
    maxlen, maxlines = (3, 2) if tier == "quick" else (4, 3)
    r3 = pool.run_tasks("checks.c04:e3_task", [("str", i, maxlen, "c03") for i in range(len(c04.SLOTS))] + [("ml", i, maxlines, "c03") for i in range(len(c04.ML_SLOTS))])
    n3 = sum(r["n"] for r in r3)
    for r in r3:
        viols.extend(r["violations"])
    cov["transitions"] += n3
    cov["traces_validated_against_impl"] += n3
    cov["evaluations"] += n3
    cov["states"] += sum(r["acc"] for r in r3)
    cov["value_product"] = dict(chars=c04.CHARS, max_len=maxlen, ml_lines=c04.ML_LINES, ml_max_lines=maxlines, cases=n3,
                                slots=[s[0] for s in c04.SLOTS] + [s[0] for s in c04.ML_SLOTS], exhaustive=True)
    # every single-byte edit of the byte corpus that is still accepted must keep its tokens (incl. octets that are not UTF-8)
    from . import c02
    rb = pool.run_tasks("checks.c02:byte_task", [(i, False, False, "c03") for i in range(len(c02.CORPUS))])
    nb = sum(r["n"] for r in rb)
    for r in rb:
        viols.extend(r["violations"])
    cov["transitions"] += nb
    cov["traces_validated_against_impl"] += nb
    cov["evaluations"] += nb
    cov["byte_edits"] = dict(corpus=len(c02.CORPUS), executions=nb)
    lt = [(m, L, S) for m in ("bytes", "str", "file") for L in LINE_LENGTHS for S in ladder_sizes(tier)]
    rl = pool.run_tasks("checks.c03:ladder_task", sorted(lt, key=lambda t: -t[2]))
    nl = sum(r["n"] for r in rl)
    for r in rl:
        viols.extend(r["violations"])
    cov["transitions"] += nl
    cov["traces_validated_against_impl"] += nl
    cov["evaluations"] += nl
    cov["size_ladder"] = dict(sizes=ladder_sizes(tier), line_lengths=list(LINE_LENGTHS), modes=["bytes", "str", "file"], executions=nl,
                              rule="scripts of n commands with n*L just under / at / just over each size; result must hold all n commands")
    ob = 2 if tier == "quick" else 3
    ro = pool.run_tasks("checks.c03:overlap_task", [(g, ob if len(g) == 2 else ob - 1, "C03") for g in overlap_groups(tier)])
    no = sum(r["n"] for r in ro)
    for r in ro:
        viols.extend(r["violations"])
    cov["transitions"] += no
    cov["traces_validated_against_impl"] += no
    cov["evaluations"] += no
    cov["overlap"] = dict(scripts=len(OVERLAP_SCRIPTS), groups=len(overlap_groups(tier)), preemption_bound=ob, schedules=no,
                          rule="every schedule with <= bound preemptions of 2 (3: bound - 1) parses on distinct Parser objects, switching at token "
                               "boundaries; each accepted tree must equal the tree of the same script parsed alone")
    viols = [v for v in viols if v["property"] == "C03"]
    sc = pool.run_tasks("checks.c03:overlap_selfcheck", [0], force_pool=True)[0]
    if sc:
        harness = list(harness) + ["interleaving explorer self-check: " + sc]
    return dict(violations=viols, coverage=cov, harness_errors=harness, assumptions=PC.ASSUMPTIONS)


# ---------------------------------------------------------------------------------------------
# E3: size ladder - scripts just under / at / just over every power of two and of ten, through parse(bytes), parse(str)
# and parse_file; the result must hold every command of the script (the last one is the only "stop")

LINE_LENGTHS = (5, 8, 32)


def ladder_sizes(tier):
    top2, top10 = (21, 6) if tier == "quick" else (23, 7)
    return sorted({2 ** k for k in range(10, top2 + 1)} | {10 ** k for k in range(3, top10 + 1)})


def ladder_script(n, L):
    pad = "" if L == 5 else " #" + "x" * (L - 8) + "\n"
    return ("keep;" + pad) * (n - 1) + "stop;" + pad


def ladder_case(mode, L, n):
    import os
    import tempfile
    text = ladder_script(n, L)
    path = None
    try:
        if mode == "file":
            fd, path = tempfile.mkstemp(prefix="verif_c03_", suffix=".sieve")
            with os.fdopen(fd, "w") as f:
                f.write(text)
            o = E.seams.run_parse(text, via_file=path, want_tree=False, keep_parser=True)
        else:
            o = E.seams.run_parse(text.encode() if mode == "bytes" else text, want_tree=False, keep_parser=True)
    finally:
        if path:
            os.unlink(path)
    if o.verdict != "ACC":
        # a refusal of a valid script is C01's business, not a misrepresentation
        return "C01: %d commands (%d bytes) through %s: %s" % (n, len(text), mode, o.brief()[:120])
    res = o.parser.result
    names = [getattr(c, "name", None) for c in res]
    if len(res) != n or names[-1:] != ["stop"] or names.count("keep") != n - 1:
        return "%d commands (%d bytes) through %s accepted, result holds %d commands ending in %r" % (n, len(text), mode, len(res), names[-1:])
    return None


def ladder_task(t):
    mode, L, S = t[:3]
    prop = t[3] if len(t) > 3 else "C03"
    viols = []
    n_exec = 0
    for n in sorted({max(1, S // L - 1), max(1, S // L), S // L + 1, S // L + 2}):
        n_exec += 1
        bad = ladder_case(mode, L, n)
        if bad and bad.startswith("C01:") != (prop == "C01"):
            bad = None
        if bad:
            viols.append({"property": prop, "engine": "parser", "signature": [prop, "size-ladder", mode, "line%d" % L, "S=%d" % S],
                          "what": bad, "case": {"ladder": [mode, L, n]}, "witness": "ladder_script(%d, %d) via %s" % (n, L, mode), "observed": bad})
    return dict(n=n_exec, violations=viols)


# ---------------------------------------------------------------------------------------------
# E2: overlapping parses - two or three Parser objects whose parse() calls are interleaved at every token boundary
# (mc/interleave.py; all schedules up to a preemption bound). Scripts use core commands only: the loaded-extension list is
# process-global by the library's design (it is the state C13 is anchored in), so scripts with `require` are kept out.

OVERLAP_SCRIPTS = [b"keep; stop; discard;", b"if true { keep; }", b'if header :is "a" "b" { stop; } else { keep; }',
                   b"if anyof (true, not false) { discard; }", b"keep; foo;", b'redirect "a@b"; keep', b'if size :over 1K { redirect "x"; }']


def overlap_groups(tier):
    import itertools
    n = len(OVERLAP_SCRIPTS)
    groups = [(i, j) for i in range(n) for j in range(i, n)]
    groups += [(0, 1, 2), (1, 3, 4), (2, 2, 2), (0, 4, 5)]
    return groups


def overlap_selfcheck(_t):
    from mc import interleave as I
    return I.selfcheck(E.seams.load())


def overlap_task(t):
    from mc import interleave as I
    group, bound, prop = t
    ns = E.seams.load()
    texts = [OVERLAP_SCRIPTS[i] for i in group]
    want = I.sequential(ns, texts)
    viols = []
    n = 0
    outcomes = set()
    for choices, results, r in I.explore(ns, texts, bound=bound):
        n += 1
        outcomes.add(repr(results))
        if r.timeout:
            viols.append({"property": prop, "engine": "parser", "signature": [prop, "overlap", "group%s" % (group,), "no-return"],
                          "what": "overlapping parses %r under schedule %r do not finish" % (texts, choices), "case": {"overlap": list(group), "schedule": choices},
                          "witness": "schedule %r" % (choices,), "observed": "timeout"})
            break
        for k, (got, exp) in enumerate(zip(results, want)):
            if got == exp:
                continue
            tree_only = got[0] == "ACC" and exp[0] == "ACC"
            if prop == "C03" and not tree_only:
                continue
            viols.append({"property": prop, "engine": "parser",
                          "signature": [prop, "overlap", "script%d" % group[k], "tree" if tree_only else "%s-instead-of-%s" % (got[0], exp[0])],
                          "what": "parse of %r overlapped with %r (schedule %r): %r, alone: %r" % (texts[k], [x for j, x in enumerate(texts) if j != k], choices, got, exp),
                          "case": {"overlap": list(group), "schedule": choices, "bound": bound},
                          "witness": "texts=%r schedule=%r" % (texts, choices), "observed": repr(got)[:200]})
            break
        if len(viols) >= 3:
            break
    return dict(n=n, outcomes=len(outcomes), violations=viols)


def replay(payload):
    if payload.get("case", {}).get("overlap"):
        from mc import interleave as I
        c = payload["case"]
        ns = E.seams.load()
        texts = [OVERLAP_SCRIPTS[i] for i in c["overlap"]]
        want = I.sequential(ns, texts)
        got = I.Run(ns, texts, c["schedule"]).execute()
        if got != want:
            return [{"property": payload["property"], "signature": payload["signature"], "what": "overlapped: %r, alone: %r" % (got, want),
                     "witness": payload.get("witness"), "observed": repr(got)[:200]}]
        return []
    if payload.get("case", {}).get("ladder"):
        mode, L, n = payload["case"]["ladder"]
        bad = ladder_case(mode, L, n)
        prop = payload["signature"][0]
        if bad and bad.startswith("C01:") != (prop == "C01"):
            bad = None
        return [{"property": prop, "signature": payload["signature"], "what": bad, "witness": payload.get("witness"), "observed": bad}] if bad else []
    return PC.replay_text(payload, ORACLES)
