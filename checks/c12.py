"""C12 — Filter-set editing operations behave like an ordered, uniquely named list.

E1: all operation sequences up to a bound without deduplication AND BFS to closure of the canonical state space,
every step compared with the reference list model (return value, names/order/enabled, is_filter_disabled, wrapper
structure of the rendering, getfilter content)."""
import itertools

from mc import pool, seams, canon, factory_engine as F

NAMES = ["a", "b", "c"]
TWINS = ["caf\u00e9", "cafe\u0301", "\u2126"]
# contents that are not `if` blocks: replacefilter takes any parsed command (an unconditional top-level action)
PARSED = {"p1": 'redirect "bare@example.com";\n', "p2": "keep;\n"}


# definitions the factory refuses while it builds the filter (after the name checks): the call raises and must leave nothing behind
BADDEFS = {
    "x1": ([("Subject", ":is", "x")], [("nosuchaction", "x")]),
    "x2": ([("Subject", ":is", "x")], [("fileinto", 5)]),
    "x3": ([("Subject", ":is", "x")], [("fileinto", ":copy", "Ok"), ("fileinto", ":bogus", "x")]),
    "x4": ([("envelope", ":is", ["From"], ["a"]), ("nottrue",)], [("keep",)]),
}


def events(rich=False):
    ev = []
    for n in NAMES:
        ev.append(("add", n, "d1"))
        ev.append(("add", n, "d2"))
    ev.append(("add", b"a", "d1"))
    for o in NAMES:
        for n in NAMES:
            ev.append(("update", o, n, "d2"))
        ev.append(("update", o, o, "d1"))
        ev.append(("replace", o, ("fresh", "d2"), None, None))
        for n in NAMES:
            if n != o:
                ev.append(("replace", o, ("fresh", "d1"), n, "desc"))
                ev.append(("replace", o, ("get", n), None, None))
        ev.append(("replace", o, ("parsed", "p1"), None, None))
        ev.append(("replace", o, ("fresh", "d2"), None, "note"))
        ev.append(("remove", o))
        ev.append(("enable", o))
        ev.append(("disable", o))
        ev.append(("move", o, "up"))
        ev.append(("move", o, "down"))
    ev.append(("replace", "a", ("parsed", "p2"), None, None))
    ev.append(("replace", "b", ("get", "b"), None, ""))
    # a filter replaced by its own content under a new name (a plain rename through replacefilter)
    ev.append(("replace", "a", ("get", "a"), "c", None))
    ev.append(("replace", "b", ("get", "b"), "a", "own"))
    ev.append(("replace", "c", ("get", "c"), "b", None))
    # definitions whose only test is a constant (`false` is also what the disabled wrapper tests)
    ev.append(("add", "a", "d10"))
    ev.append(("update", "b", "b", "d10"))
    ev.append(("add", "c", "d11"))
    # names that are canonically equivalent but different strings (NFC / NFD, OHM SIGN / OMEGA): distinct filters
    for n in TWINS:
        ev.append(("add", n, "d1"))
        ev.append(("remove", n))
        ev.append(("disable", n))
    ev.append(("update", TWINS[0], TWINS[1], "d2"))
    ev.append(("update", "a", TWINS[2], "d2"))
    ev.append(("replace", TWINS[1], ("fresh", "d2"), TWINS[0], None))
    ev.append(("badadd", "a", "x1"))
    ev.append(("badadd", "c", "x2"))
    ev.append(("badadd", "b", "x3"))
    ev.append(("badupdate", "a", "x1"))
    ev.append(("badupdate", "b", "x4"))
    ev.append(("disable", b"a"))
    ev.append(("remove", b"b"))
    ev.append(("replace", "a", ("fresh", "d2"), b"a", None))
    ev.append(("replace", "a", ("fresh", "d2"), b"c", None))
    ev.append(("replace", b"b", ("fresh", "d1"), b"a", "desc"))
    ev.append(("update", b"a", b"b", "d2"))
    ev.append(("update", "b", b"b", "d1"))
    ev.append(("move", b"a", "down"))
    ev.append(("enable", b"a"))
    return ev


def apply(ev, fs, model, ns):
    """-> (impl outcome, model outcome) or None when the event is not enabled in this state"""
    kind = ev[0]
    FAE = ns.factory.FilterAlreadyExists

    def run(f, *a, **k):
        try:
            return ("ret", f(*a, **k))
        except FAE:
            return ("exc", "FilterAlreadyExists")
        except Exception as e:  # noqa
            return ("exc", type(e).__name__ + ": " + str(e)[:80])

    def mrun(f, *a, **k):
        try:
            return ("ret", f(*a, **k))
        except F.AlreadyExists:
            return ("exc", "FilterAlreadyExists")

    if kind in ("badadd", "badupdate"):
        c, a = BADDEFS[ev[2]]
        if kind == "badupdate" and model._find(ev[1]) is None:
            return None
        try:
            if kind == "badadd":
                fs.addfilter(ev[1], list(c), list(a))
            else:
                fs.updatefilter(ev[1], ev[1], list(c), list(a))
        except Exception:  # noqa
            return ("exc", "refused"), ("exc", "refused")  # which exception is not specified; the model is unchanged
        return None  # this tree takes the definition after all: not the situation the event is about
    if kind == "add":
        c, a, mt = F.DEFS[ev[2]]
        return run(fs.addfilter, ev[1], list(c), list(a), mt), mrun(model.add, ev[1], ev[2])
    if kind == "update":
        c, a, mt = F.DEFS[ev[3]]
        return run(fs.updatefilter, ev[1], ev[2], list(c), list(a), mt), mrun(model.update, ev[1], ev[2], ev[3])
    if kind == "replace":
        src = ev[2]
        if src[0] == "fresh":
            # documented usage: the object comes from getfilter() of this very set (built under a scratch name)
            c, a, mt = F.DEFS[src[1]]
            fs.addfilter("__tmp__", list(c), list(a), mt)
            content = fs.getfilter("__tmp__")
            fs.removefilter("__tmp__")
            d = src[1]
        elif src[0] == "parsed":
            p = ns.parser.Parser()
            assert p.parse(PARSED[src[1]]) is True, p.error
            content = p.result[0]
            d = src[1]
        else:
            i = model._find(src[1])
            if i is None:
                return None
            content = fs.getfilter(src[1])
            d = model.items[i][1]
        new = ev[3]
        return (run(fs.replacefilter, ev[1], content, new, ev[4]),
                mrun(model.update, ev[1], new if new is not None else ev[1], d, ev[4]))
    if kind == "remove":
        return run(fs.removefilter, ev[1]), mrun(model.remove, ev[1])
    if kind == "enable":
        return run(fs.enablefilter, ev[1]), mrun(model.enable, ev[1])
    if kind == "disable":
        return run(fs.disablefilter, ev[1]), mrun(model.disable, ev[1])
    if kind == "move":
        return run(fs.movefilter, ev[1], ev[2]), mrun(model.move, ev[1], ev[2])
    raise AssertionError(ev)


_alone_cache = {}


def alone(ns, d):
    if d not in _alone_cache:
        if d in PARSED:
            p = ns.parser.Parser()
            assert p.parse(PARSED[d]) is True, p.error
            text = F.render_cmd(p.result[0])
        else:
            text = F.build_alone(ns, d)
        v, _t, _c = F.ref_parse('require ["fileinto","copy","mailbox","envelope","body","date","relational","vacation","imap4flags","reject"];\n' + text)
        _alone_cache[d] = (text, v.tree[1] if v.tree else None)
    return _alone_cache[d]


def check_state(fs, model, ns, light=False):
    """-> None | (clause, text)"""
    got = [(f["name"], bool(f["enabled"])) for f in fs.filters]
    want = [(n, e) for n, _d, e, _desc in model.items]
    if got != want:
        return ("state", "filters are %r, the list model says %r" % (got, want))
    for n, d, e, desc in model.items:
        if fs.is_filter_disabled(n) != (not e):
            return ("is_filter_disabled", "is_filter_disabled(%r)=%r but enabled flag is %r" % (n, fs.is_filter_disabled(n), e))
        if not fs.filter_exists(n):
            return ("filter_exists", "filter_exists(%r) is False" % n)
    for n in NAMES:
        if model._find(n) is None and fs.filter_exists(n):
            return ("filter_exists", "filter_exists(%r) is True for an absent filter" % n)
        if model._find(n) is None and fs.getfilter(n) is not None:
            return ("getfilter", "getfilter(%r) returns something for an absent filter" % n)
    if light:
        return None
    # structure on the implementation's own objects: wrapper depth per filter
    for f, (n, d, e, desc) in zip(fs.filters, model.items):
        node = canon.node_of(f["content"], ns)
        depth, inner = F.wrapper_depth(node)
        # the definition pool has no `if false` of its own
        if depth != (0 if e else 1):
            return ("wrapper", "filter %r enabled=%r is wrapped in %d `if false` blocks" % (n, e, depth))
    # rendering judged on the reference parse
    text = F.render(fs)
    v, toks, comments = F.ref_parse(text)
    if v.tree is None:
        return ("render-invalid", "rendering is not valid for the reference: %r" % (v,))
    cmds = [c for c in v.tree if c[0] != "require"]
    if len(cmds) != len(model.items):
        return ("render-count", "%d top-level commands rendered for %d filters" % (len(cmds), len(model.items)))
    for c, (n, d, e, desc) in zip(cmds, model.items):
        depth, inner = F.wrapper_depth(c)
        if depth != (0 if e else 1):
            return ("render-wrapper", "rendering of %r (enabled=%r) has %d wrappers" % (n, e, depth))
        if inner != alone(ns, d)[1]:
            return ("render-content", "rendering of %r differs from definition %s built alone" % (n, d))
    for n, d, e, desc in model.items:
        g = fs.getfilter(n)
        if g is None:
            return ("getfilter", "getfilter(%r) is None" % n)
        if F.render_cmd(g) != alone(ns, d)[0]:
            return ("getfilter", "getfilter(%r) (enabled=%r) does not render as its own content" % (n, e))
    return None


def impl_key(fs, ns):
    out = []
    for f in fs.filters:
        try:
            node = canon.node_of(f["content"], ns)
            depth, inner = F.wrapper_depth(node)
            h = hash(inner)
        except Exception:  # noqa
            depth, h = -1, 0
        out.append((f.get("name"), bool(f.get("enabled")), depth, h, f.get("description")))
    return tuple(out)


def loaded_pair(ns):
    """two sets loaded from ONE parse of a script holding an enabled filter a (d1) and a disabled filter b (d2), and the model of one"""
    fs0 = F.new_set(ns)
    model = F.RefFilters()
    for n, d in (("a", "d1"), ("b", "d2")):
        c, a, mt = F.DEFS[d]
        fs0.addfilter(n, list(c), list(a), mt)
        model.add(n, d)
    fs0.disablefilter("b")
    model.disable("b")
    p = ns.parser.Parser()
    assert p.parse(F.render(fs0)) is True, p.error
    fs, twin = F.new_set(ns), F.new_set(ns)
    fs.from_parser_result(p)
    twin.from_parser_result(p)
    return fs, twin, model


def replay_history(hist, ns, full_last=True, loaded=False):
    """-> (violation or None, fs, model, index of failing step)"""
    twin = None
    if loaded:
        fs, twin, model = loaded_pair(ns)
        twin_text = F.render(twin)
    else:
        fs = F.new_set(ns)
        model = F.RefFilters()
    for i, ev in enumerate(hist):
        before = F.render(fs) if i == len(hist) - 1 else None  # (every prefix is a history of its own: the last event is enough)
        r = apply(ev, fs, model, ns)
        if r is None:
            return ("skip", fs, model, i)
        (ik, iv), (mk, mv) = r
        bad = None
        # (replace events that build their content through this very set add to its requires by construction: excluded)
        if before is not None and (mk == "exc" or (ev[0] != "add" and mk == "ret" and mv is False)) and not (ev[0] == "replace" and ev[2][0] != "get"):
            # the model says this call is refused (unknown name, name taken, move out of bounds): nothing at all may change
            try:
                after = F.render(fs)
            except Exception as e:  # noqa
                after = "%s: %s" % (type(e).__name__, e)
            if ev[0] in ("badadd", "badupdate"):
                # a definition refused half-way may already have been consulted for its extensions: the require line is not part of
                # the list behaviour this property describes (C06 judges it); everything below it is
                strip = lambda t: t.split("\n\n", 1)[1] if t.startswith("require") and "\n\n" in t else t
                before, after = strip(before), strip(after)
            if after != before:
                bad = ("refused-but-changed", "%r is refused (%s %r) but the set renders differently afterwards: %r -> %r" % (ev, mk, mv, before[:80], after[:80]))
        if bad is not None:
            pass
        elif ik != mk:
            bad = ("outcome", "%r: implementation %s %r, model %s %r" % (ev, ik, iv, mk, mv))
        elif ik == "exc" and iv != mv:
            bad = ("outcome", "%r raised %s, model expects %s" % (ev, iv, mv))
        elif ik == "ret" and mv != "unspecified" and not (iv is mv or (iv == mv and type(iv) is type(mv))):
            bad = ("outcome", "%r returned %r, model says %r" % (ev, iv, mv))
        if bad is None:
            try:
                bad = check_state(fs, model, ns, light=not (full_last and i == len(hist) - 1))
            except Exception as e:  # noqa
                bad = ("exception", "observing the set raised %s: %s" % (type(e).__name__, str(e)[:100]))
        if bad is None and twin is not None and F.render(twin) != twin_text:
            bad = ("other-set-changed", "a second set loaded from the same parse result, on which nothing was called, now renders differently")
        if bad:
            return (bad, fs, model, i)
    return (None, fs, model, len(hist))


def ev_label(ev):
    return "%s(%s)" % (ev[0], ",".join(str(x) for x in ev[1:]))


def mkviol(bad, hist, i, prop="C12", loaded=False):
    ev = hist[i] if i < len(hist) else hist[-1]
    prev = hist[i - 1][0] if i > 0 else ("loaded" if loaded else "start")
    return {"property": prop, "engine": "factory", "loaded": loaded,
            "signature": [prop, ev[0] + ("/" + ev[2][0] if ev[0] == "replace" else ""), "after:" + prev, bad[0]],
            "what": "history %s: %s" % (" ; ".join(ev_label(e) for e in hist[:i + 1]), bad[1]),
            "case": {"history": [list(e) if not isinstance(e, list) else e for e in _jsonable(hist[:i + 1])]},
            "witness": " ; ".join(ev_label(e) for e in hist[:i + 1]), "observed": bad[1][:200]}


def _jsonable(hist):
    out = []
    for ev in hist:
        row = []
        for x in ev:
            if isinstance(x, bytes):
                row.append({"bytes": x.decode("utf-8")})
            elif isinstance(x, tuple):
                row.append(list(x))
            else:
                row.append(x)
        out.append(row)
    return out


def _unjson(hist):
    out = []
    for ev in hist:
        row = []
        for x in ev:
            if isinstance(x, dict):
                row.append(x["bytes"].encode("utf-8"))
            elif isinstance(x, list):
                row.append(tuple(x))
            else:
                row.append(x)
        out.append(tuple(row))
    return out


def task(t):
    mode, first, depth = t[:3]
    ns = seams.load()
    evs = events()
    viols = []
    n = 0
    states = set()
    if mode in ("all", "loaded"):
        # every sequence of length <= depth starting with `first`, no dedup (prefix-closed: stop at first violation)
        def rec(hist):
            nonlocal n
            bad, fs, model, i = replay_history(hist, ns, loaded=(mode == "loaded"))
            n += 1
            if bad == "skip":
                return
            if bad:
                viols.append(mkviol(bad, hist, i, loaded=(mode == "loaded")))
                return
            states.add((model.state(), impl_key(fs, ns)))
            if len(hist) < depth:
                for ev in evs:
                    rec(hist + [ev])

        second = t[3] if len(t) > 3 else None
        if second is None:
            rec([evs[first]])
        else:
            # one task per (first, second) event: the same sequences, spread over more workers
            if second == 0:
                depth, keep = 1, depth
                rec([evs[first]])
                depth = keep
            rec([evs[first], evs[second]])
        return dict(n=n, states=len(states), violations=viols, sample=None)
    # BFS to closure with dedup (the canonically-equivalent twin names are left to the undeduplicated sequences: three more names
    # would multiply the reachable states without adding a new kind of transition)
    seen = set()
    first_ev = evs[first]
    evs = [e for e in evs if not any(x in TWINS or x in ("d10", "d11") for x in e if isinstance(x, str))]
    frontier = [[first_ev]]
    bad, fs, model, i = replay_history(frontier[0], ns)
    n += 1
    if bad and bad != "skip":
        viols.append(mkviol(bad, frontier[0], i))
        return dict(n=n, states=0, violations=viols, sample=None)
    if bad == "skip":
        return dict(n=n, states=0, violations=viols, sample=None)
    seen.add((model.state(), impl_key(fs, ns)))
    sample = None
    d = 1
    while frontier and d < depth:
        nxt = []
        for h in frontier:
            for ev in evs:
                h2 = h + [ev]
                bad, fs, model, i = replay_history(h2, ns)
                n += 1
                if bad == "skip":
                    continue
                if bad:
                    viols.append(mkviol(bad, h2, i))
                    continue
                k = (model.state(), impl_key(fs, ns))
                if k not in seen:
                    seen.add(k)
                    nxt.append(h2)
                    if sample is None and len(h2) >= 4:
                        sample = {"history": [ev_label(e) for e in h2], "state": repr(model.state())}
        frontier = nxt
        d += 1
    return dict(n=n, states=len(seen), violations=viols, sample=sample, closed=not frontier)


def run(tier, seed):
    evs = events()
    all_depth = 3 if tier == "quick" else 4
    bfs_depth = 6 if tier == "quick" else 8  # (measured: 6877 / 18230 / 40658 states at depth 6 / 7 / 8 per first event; it does not close)
    # thorough: sequences of 4 events start with an add of a plain name (every other first event meets the empty set, is refused or changes nothing
    # there, and is followed to 3 events: what such a call might leave behind shows within the next two events)
    def dep(i):
        e = evs[i]
        return all_depth if (tier == "quick" or (e[0] == "add" and isinstance(e[1], str) and e[1] in NAMES and e[2] in ("d1", "d2"))) else all_depth - 1

    tasks = []
    for i in range(len(evs)):
        if dep(i) >= 4:
            tasks += [("all", i, 4, j) for j in range(len(evs))]
        else:
            tasks.append(("all", i, dep(i)))
    tasks += [("bfs", i, bfs_depth) for i in range(len(evs)) if evs[i][0] == "add" and evs[i][1] not in TWINS]
    # the same events on a set loaded from a parse result that a second set shares
    tasks += [("loaded", i, all_depth - 1) for i in range(len(evs))]
    res = pool.run_tasks("checks.c12:task", tasks)
    n = sum(r["n"] for r in res)
    viols = []
    for r in res:
        viols.extend(r["violations"])
    closed = all(r.get("closed", True) for r in res)
    cov = dict(states=sum(r["states"] for r in res), transitions=n, traces_validated_against_impl=n, evaluations=n,
               distinct_nontrivial=sum(r["states"] for r in res),
               rule="E1 on the real FiltersSet, state = history replayed on a fresh object: (1) every sequence of <= %d (thorough: 4 when the first event is an add, else 3) of the %d events (add/update/replace "
                    "with fresh or getfilter content/remove/enable/disable/move over names a,b,c as str and bytes, two definitions) without deduplication; "
                    "(2) BFS with dedup on (model state, implementation names/flags/wrapper depths/content) to depth %d; after every event: return value / "
                    "FilterAlreadyExists, names, order, flags, is_filter_disabled, filter_exists, wrapper depth, rendering per filter (reference parse), "
                    "getfilter content" % (all_depth, len(evs), bfs_depth),
               samples=[r["sample"] for r in res if r.get("sample")][:4] or [{"note": "none"}], exhaustive=True, bfs_closed=closed, events=len(evs))
    return dict(violations=viols, coverage=cov, harness_errors=[],
                assumptions=["reference list model of DESIGN.md Appendix C; return values the property leaves open (disable of a disabled filter, enable of "
                             "an enabled one) are not compared"])


def replay(payload):
    ns = seams.load()
    hist = _unjson(payload["case"]["history"])
    loaded = bool(payload.get("loaded"))
    bad, fs, model, i = replay_history(hist, ns, loaded=loaded)
    if bad and bad != "skip":
        v = mkviol(bad, hist, i, loaded=loaded)
        return [v]
    return []
