"""C10 — No script command before authentication; no credentials before TLS.

Histories [pre-connect call]* connect(starttls) [post call]* [second connect] [post call]* over EVERY public callable of
Client found by introspection, x server behaviour at each handshake step x capability sets x TLS wrap outcome.
Oracle: a monitor over the two write logs (plain socket / wrapped socket) and the reference server's view."""
import itertools

from mc import pool, wire, refms, seams

STEPS = ["GREETING", "STARTTLS", "TLSCAPS", "AUTHSTART", "AUTHRESULT"]  # AUTHSTART: the AUTHENTICATE command itself is answered, before any challenge
ACTIONS = ["NO", "BYE", "SILENCE", "EOF", "GARBAGE", "BYE-REFERRAL"]
SCRIPT_VERBS = refms.SCRIPT_VERBS

KNOWN_ARGS = {
    "havespace": ("a", 10), "listscripts": (), "getscript": ("a",), "putscript": ("a", "keep;"), "checkscript": ("keep;",),
    "deletescript": ("a",), "renamescript": ("a", "b"), "setactive": ("a",), "capability": (), "logout": (),
    "get_implementation": (), "get_sasl_mechanisms": (), "has_tls_support": (), "get_sieve_capabilities": (),
}


def public_callables():
    ns = seams.load()
    C = ns.managesieve.Client
    out = []
    for n in sorted(dir(C)):
        if n.startswith("_") or n == "connect":
            continue
        if callable(getattr(C, n)):
            out.append(n)
    # logout last, so that the other calls run on a live session
    out.sort(key=lambda n: (n == "logout", n))
    return out


def call_any(s, name):
    """call a public method with synthesised arguments (unknown methods: try 0..2 string arguments)"""
    if name in KNOWN_ARGS:
        return s.call(name, *KNOWN_ARGS[name])
    for args in ((), ("a",), ("a", "b"), ("a", "b", "c")):
        o = s.call(name, *args)
        if not (o.kind == "exc" and o.exc_type == "TypeError" and "argument" in (o.exc_msg or "")):
            return o
    return o


CAPSETS = {
    "plain": dict(starttls=False, pre=b"PLAIN LOGIN", post=b"PLAIN LOGIN"),
    "tls-same": dict(starttls=True, pre=b"PLAIN LOGIN", post=b"PLAIN LOGIN"),
    "tls-differs": dict(starttls=True, pre=b"LOGIN", post=b"PLAIN"),
    "tls-differs-debug": dict(starttls=True, pre=b"PLAIN", post=b"LOGIN", debug=True),  # the same with a client created with debug=True
    "tls-only-after": dict(starttls=True, pre=b"", post=b"PLAIN"),
    "tls-none-after": dict(starttls=True, pre=b"PLAIN", post=b"X-OTHER"),
    # announced names that merely contain an implemented mechanism's name: nothing qualifies, no credentials may be sent
    "lookalikes": dict(starttls=False, pre=b"X-PLAIN-SUBMIT NMAS_LOGIN OAUTHBEARER-V2", post=b"X-PLAIN-SUBMIT NMAS_LOGIN OAUTHBEARER-V2"),
    "tls-lookalikes-after": dict(starttls=True, pre=b"PLAIN", post=b"PLAIN-CLIENTTOKEN XDIGEST-MD5"),
    # nothing (an empty list) announced after the handshake: no mechanism qualifies, whatever the caller prefers
    "tls-empty-after": dict(starttls=True, pre=b"PLAIN LOGIN", post=b"", authmech="PLAIN"),
    "digest": dict(starttls=False, pre=b"DIGEST-MD5", post=b"DIGEST-MD5"),
    # the server's final DIGEST-MD5 data does not verify: it is the client that ends the login (no NO from the server)
    "digest-bad-rspauth": dict(starttls=False, pre=b"DIGEST-MD5", post=b"DIGEST-MD5", bad_rspauth=True),
    "tls-digest-after": dict(starttls=True, pre=b"PLAIN", post=b"DIGEST-MD5 PLAIN"),
    # OAUTHBEARER alone; and a server that answers a refused token with an error challenge and waits for the client's dummy response
    # before it fails the exchange (RFC 7628 3.2.3) - whatever arrives then, only OK authenticates
    "oauth": dict(starttls=False, pre=b"OAUTHBEARER", post=b"OAUTHBEARER"),
    "oauth-challenge": dict(starttls=False, pre=b"OAUTHBEARER", post=b"OAUTHBEARER", oauth_challenge=True),
    "tls-oauth-challenge": dict(starttls=True, pre=b"PLAIN", post=b"OAUTHBEARER", oauth_challenge=True),
}


OK_FORM = [0]
FINAL_SASL = [False]


def make_server(capset, faults, auth_ok=True):
    srv = _make_server(capset, faults, auth_ok)
    srv.handshake_ok_form = OK_FORM[0]
    srv.auth_final_sasl = FINAL_SASL[0]
    srv.digest_users = {"user": "pass"}
    srv.digest_bad_rspauth = bool(CAPSETS[capset].get("bad_rspauth"))
    srv.oauth_error_challenge = bool(CAPSETS[capset].get("oauth_challenge"))
    return srv


def _make_server(capset, faults, auth_ok=True):
    c = CAPSETS[capset]
    pre = [(b"IMPLEMENTATION", b"x"), (b"SASL", c["pre"]), (b"SIEVE", b"fileinto")]
    post = [(b"IMPLEMENTATION", b"x"), (b"SASL", c["post"]), (b"SIEVE", b"fileinto")]
    return refms.RefServer(store={"a": b"keep;\r\n"}, active=None, caps_plain=pre, caps_tls=post, starttls=c["starttls"],
                           faults=faults, auth_ok=auth_ok)


def monitor(s, servers, starttls_requested, history, outcomes):
    """-> list of (clause, text)"""
    bad = []
    for srv in servers:
        for v in srv.violations:
            if "before a successful AUTHENTICATE" in v:
                bad.append(("script-command-unauthenticated", v))
            elif "not announced" in v and "AUTHENTICATE" in v:
                bad.append(("mechanism-not-announced", v))
            elif "TLS handshake started without" in v:
                bad.append(("tls-without-ok", v))
    # script verbs must not even be written when unauthenticated: check raw bytes of every connection
    for conn in s.env.get("connections", []):
        pass
    if starttls_requested:
        for conn in s.env.get("connections", []):
            if b"AUTHENTICATE" in conn.written.upper():
                bad.append(("credentials-on-plain-socket", "AUTHENTICATE written on the plain socket although STARTTLS was requested: %r" % conn.written[:80]))
    # calls made while not authenticated must raise Error and write nothing
    for (name, phase, wrote, o, authed) in outcomes:
        verb = name.upper()
        if verb in SCRIPT_VERBS and not authed:
            if wrote:
                bad.append(("wrote-while-unauthenticated", "%s (%s) wrote %r without an authenticated connection" % (name, phase, wrote[:60])))
            if not (o.kind == "exc" and o.exc_type == "Error"):
                if o.kind in ("livelock", "hang"):
                    bad.append(("no-return", "%s (%s) does not return" % (name, phase)))
                else:
                    bad.append(("no-error-while-unauthenticated", "%s (%s) gave %s instead of raising Error" % (name, phase, o.brief())))
    return bad


def run_history(capset, starttls, faults1, wrap_fails, pre, post, second, faults2, post2, auth_ok=True, wfault=None):
    srv1 = make_server(capset, faults1, auth_ok)
    s = wire.Session(srv1)
    s.new_client(debug=bool(CAPSETS[capset].get("debug")))
    if wrap_fails:
        s.env["wrap_fails"] = True
    outcomes = []
    servers = [srv1]
    # should the client open a connection of its own accord (e.g. following a referral) it reaches a fresh, fault-free server
    spare = make_server(capset, [], auth_ok)
    servers.append(spare)
    s.env["next_server"] = spare

    def do(name, phase):
        srv = s.server
        sock = s.cur_socket()
        before = len(sock.written)
        # "an AUTHENTICATE exchange on this connection ended with OK" (a later LOGOUT does not undo that)
        authed = bool(srv.authenticated) and s.created > 0 and not s.env.get("refused_last")
        o = call_any(s, name)
        sock2 = s.cur_socket()
        wrote = sock.written[before:] if sock2 is sock else sock2.written
        outcomes.append((name, phase, wrote, o, authed))

    for name in pre:
        do(name, "before connect")
    if wfault is not None:
        import socket as _socket
        s.plain.write_fault = (wfault[1], lambda: _socket.timeout("timed out"), wfault[0])
    # first connect in the positional form of the documented signature (login, password, authz_id, starttls), second one by keyword
    am = CAPSETS[capset].get("authmech")
    o1 = s.call("connect", "user", "pass", "", starttls, am) if am else s.call("connect", "user", "pass", "", starttls)
    for name in post:
        do(name, "after connect")
    o2 = None
    if second:
        special = faults2 if isinstance(faults2, str) else None
        srv2 = make_server(capset, [] if special else faults2, auth_ok)
        servers.append(srv2)
        s.env["next_server"] = srv2
        s.env.pop("wrap_fails", None)
        if special == "REFUSED":
            s.env["refuse_connection"] = True
        elif special == "WRAPFAIL":
            s.env["wrap_fails"] = True
        o2 = s.call("connect", "user", "pass", starttls=starttls)
        for name in post2:
            do(name, "after second connect")
    bad = monitor(s, servers, starttls, None, outcomes)
    for o in (o1, o2):
        if o is not None and o.kind in ("livelock", "hang"):
            bad.append(("no-return", "connect does not return: %s" % o.exc_msg))
    return bad, o1, o2, outcomes


def fault_sets(tier, starttls):
    steps = STEPS if starttls else ["GREETING", "AUTHSTART", "AUTHRESULT"]
    single = [((st, 0, a),) for st in steps for a in ACTIONS]
    out = [()] + single
    out += [a + b for a, b in itertools.combinations(single, 2) if a[0][0] != b[0][0]]
    if tier == "thorough":
        out += [a + b + c for a, b, c in itertools.combinations(single, 3) if len({a[0][0], b[0][0], c[0][0]}) == 3]
    return out


def task(t):
    capset, tier, okform = t[:3]
    OK_FORM[0] = okform
    FINAL_SASL[0] = len(t) > 3 and t[3]
    names = public_callables()
    viols = []
    n = 0
    distinct = set()
    sample = None
    starttls_opts = (False, True)
    for starttls in starttls_opts:
        for faults1 in fault_sets(tier, starttls and CAPSETS[capset]["starttls"]):
            for wrap_fails in ((False, True) if starttls else (False,)):
                for auth_ok in (True, False):
                    # every public method once before connect, once after, and after a second connect that may fail
                    second_faults = [None, (), (("AUTHRESULT", 0, "NO"),), (("GREETING", 0, "BYE"),), (("AUTHRESULT", 0, "SILENCE"),),
                                     (("STARTTLS", 0, "NO"),), (("TLSCAPS", 0, "EOF"),), "REFUSED", "WRAPFAIL"]
                    # (f2, wfault): a second connect that may fail, or a send on the plain socket that fails after k octets
                    variants = [(f2, None) for f2 in second_faults]
                    if not faults1 and not wrap_fails and auth_ok:
                        variants += [(None, (j, k)) for j in (0, 1, 2) for k in (0, 7)]
                    for f2, wfault in variants:
                        if f2 is not None and (faults1 or wrap_fails or not auth_ok):
                            continue  # second-connect histories start from a successful first session
                        bad, o1, o2, outs = run_history(capset, starttls, list(faults1), wrap_fails, names, names, f2 is not None,
                                                        f2 if isinstance(f2, str) else list(f2 or ()), names, auth_ok, wfault)
                        n += 1
                        distinct.add((starttls, faults1, wrap_fails, auth_ok, f2, wfault, o1.key(with_err=False), o2.key(with_err=False) if o2 else None))
                        for clause, text in bad[:3]:
                            viols.append({"property": "C10", "engine": "wire",
                                          "signature": ["C10", capset + ("+starttls" if starttls else "") + ("/okform%d" % okform if okform else "") + ("/final-sasl" if FINAL_SASL[0] else ""),
                                                        "first:%s wrap_fails=%s auth=%s second:%s" % (("+".join("%s@%s" % (a, st) for st, _k, a in faults1) or "ok") + ("/send-fails@%d" % wfault[0] if wfault else ""), wrap_fails,
                                                                                                    "OK" if auth_ok else "NO",
                                                                                                    "none" if f2 is None else (f2 if isinstance(f2, str) else ("+".join("%s@%s" % (a, st) for st, _k, a in f2) or "ok"))),
                                                        clause],
                                          "what": text,
                                          "case": {"final_sasl": FINAL_SASL[0], "okform": okform, "capset": capset, "starttls": starttls, "faults1": [list(f) for f in faults1], "wrap_fails": wrap_fails,
                                                   "auth_ok": auth_ok, "wfault": list(wfault) if wfault else None, "second": f2 is not None, "faults2": f2 if isinstance(f2, str) else [list(f) for f in (f2 or ())]},
                                          "witness": "capabilities=%s starttls=%s faults=%r wrap_fails=%s auth_ok=%s second_connect=%r" % (capset, starttls, faults1, wrap_fails, auth_ok, f2),
                                          "observed": "connect: %s / %s" % (o1.brief(), o2.brief() if o2 else None)})
                        if sample is None and starttls and not faults1 and f2 is None and not bad:
                            sample = {"capset": capset, "starttls": starttls, "connect": o1.brief(), "calls": len(outs)}
    return dict(n=n, distinct=len(distinct), violations=viols, sample=sample, methods=names)


def run(tier, seed):
    res = pool.run_tasks("checks.c10:task", [(c, tier, f, fs) for c in CAPSETS for f in (0, 1, 2) for fs in (False, True)])
    n = sum(r["n"] for r in res)
    viols = []
    for r in res:
        viols.extend(r["violations"])
    methods = res[0]["methods"]
    calls = n * len(methods) * 2
    cov = dict(states=n, transitions=calls, traces_validated_against_impl=n, evaluations=n, distinct_nontrivial=sum(r["distinct"] for r in res),
               rule="histories: [each public method] connect(starttls in {F,T}) [each public method] [second connect][each public method] x capability sets %r x "
                    "fault at each handshake step %r x %r (thorough: pairs) x TLS wrap ok/SSLError x AUTHENTICATE verdict; public methods found by "
                    "introspection: %r; monitor over plain/TLS write logs and the reference server's protocol-violation log" % (sorted(CAPSETS), STEPS, ACTIONS, methods),
               samples=[r["sample"] for r in res if r["sample"]][:4] or [{"note": "none"}], exhaustive=True, public_methods=methods)
    return dict(violations=viols, coverage=cov, harness_errors=[],
                assumptions=["TLS, sockets and timeouts are virtual: only the ordering of writes relative to the shimmed seams is decided",
                             "'for every method' is decided dynamically by enumerating the public callables, not by static reachability"])


def replay(payload):
    c = payload["case"]
    OK_FORM[0] = c.get("okform", 0)
    FINAL_SASL[0] = bool(c.get("final_sasl"))
    names = public_callables()
    bad, o1, o2, outs = run_history(c["capset"], c["starttls"], [tuple(f) for f in c["faults1"]], c["wrap_fails"], names, names, c["second"],
                                    c["faults2"] if isinstance(c["faults2"], str) else [tuple(f) for f in c["faults2"]], names, c["auth_ok"], tuple(c["wfault"]) if c.get("wfault") else None)
    out = []
    for clause, text in bad:
        sig = list(payload["signature"])
        sig[3] = clause
        out.append({"property": "C10", "signature": sig, "what": text, "witness": payload.get("witness"), "observed": text[:160]})
    return out
