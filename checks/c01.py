"""C01 — Parser accepts exactly the valid scripts of its supported Sieve language."""
from mc import pool, words
from . import parser_common as PC

ORACLES = ["c01"]
LAYOUTS = [l for l in words.LAYOUTS if l != "space"]


def run(tier, seed):
    tasks = PC.make_tasks(tier, seed, ORACLES, layouts=LAYOUTS, layout_depth=2, include_noreq=True)
    results = pool.run_tasks("checks.parser_common:task", tasks)
    results += pool.run_tasks("checks.parser_common:task", PC.audit_tasks(tier, seed, ORACLES))
    results += pool.run_tasks("checks.parser_common:valid_task", PC.valid_tasks(tier, seed, ORACLES, layouts=["upper", "crlf"]))
    results += pool.run_tasks("checks.parser_common:comment_task", PC.comment_tasks(tier, ORACLES))
    cov, viols, harness = PC.assemble(results)
    # long but trivially valid scripts (sizes around every power of two / ten): must be accepted through every entry point
    from . import c03
    rl = pool.run_tasks("checks.c03:ladder_task", sorted([(m, 8, S, "C01") for m in ("bytes", "file") for S in c03.ladder_sizes(tier)], key=lambda t: -t[2]))
    nl = sum(r["n"] for r in rl)
    for r in rl:
        viols.extend(r["violations"])
    cov["transitions"] += nl
    cov["traces_validated_against_impl"] += nl
    cov["evaluations"] += nl
    rd = pool.run_tasks("checks.c01:derived_task", ["parent-first", "child-first"], fresh_each=True)
    for r in rd:
        viols.extend(r["violations"])
    cov["transitions"] += sum(r["n"] for r in rd)
    # every single-byte edit / truncation of C02's corpus, judged for the verdict (character-level neighbours of valid scripts)
    from . import c02
    rb = pool.run_tasks("checks.c02:byte_task", [(i, False, False, "c01") for i in range(len(c02.CORPUS))])
    nb = sum(r["n"] for r in rb)
    for r in rb:
        viols.extend(v for v in r["violations"] if v["property"] == "C01")
    cov["transitions"] += nb
    cov["traces_validated_against_impl"] += nb
    cov["evaluations"] += nb
    cov["byte_edits"] = dict(corpus=len(c02.CORPUS), executions=nb, edit_bytes=len(c02.EDIT_BYTES))
    cov["size_ladder"] = dict(sizes=c03.ladder_sizes(tier), line_lengths=[8], modes=["bytes", "file"], executions=nl)
    return dict(violations=viols, coverage=cov, harness_errors=harness, assumptions=PC.ASSUMPTIONS)


def derived_task(order):
    """the language as extended through add_commands with classes derived from STOCK commands (other arity than their parent): the
    verdict for parent and child must not depend on which of them the process met first (runs in a fresh process per order)"""
    from mc import parser_engine as E
    from mc.refsieve import table as T
    from . import c13
    ns = E.seams.load()
    c13.ensure_custom(ns)
    tab = dict(T.COMMANDS)
    tab["fwdtwo"] = dict(role="action", ext=None, slots=[], pos=["s", "s"], optfirst=False, tests=0, block=False, follows=None)
    tab["existsin"] = dict(role="test", ext=None, slots=[], pos=["sl", "s"], optfirst=False, tests=0, block=False, follows=None)
    parent = [("redirect", "STR", ";"), ("if", "exists", "LIST2", "{", "keep", ";", "}")]
    child = [("fwdtwo", "STR", "STR", ";"), ("if", "existsin", "LIST1", "STR", "{", "keep", ";", "}"), ("fwdtwo", "STR", "STR", "STR", ";"),
             ("if", "existsin", "STR", "STR", "STR", "{", "}"), ("redirect", "STR", ";", "fwdtwo", "STR", "STR", ";"), ("fwdtwo", "STR", "STR", ";", "redirect", "STR", ";")]
    seq = (parent + child + parent) if order == "parent-first" else (child + parent + child)
    viols = []
    n = 0
    for w in seq:
        c = E.execute(w, commands=(tab, T.KNOWN_EXTENSIONS), want_config=False)
        n += 1
        for v in E.oracle_c01(c):
            v["signature"] = v["signature"][:2] + ["derived-from-stock", order] + v["signature"][4:]
            v["derived_order"] = order
            viols.append(v)
    return dict(n=n, violations=viols)


def replay(payload):
    if payload.get("derived_order"):
        return pool.run_tasks("checks.c01:derived_task", [payload["derived_order"]], fresh_each=True)[0]["violations"]
    if payload.get("case", {}).get("ladder"):
        from . import c03
        return c03.replay(payload)
    return PC.replay_text(payload, ORACLES)
