"""C01 — Parser accepts exactly the valid scripts of its supported Sieve language."""
from mc import pool, words
from . import parser_common as PC

ORACLES = ["c01"]
LAYOUTS = [l for l in words.LAYOUTS if l != "space"]


def run(tier, seed):
    tasks = PC.make_tasks(tier, seed, ORACLES, layouts=LAYOUTS, layout_depth=2, include_noreq=True)
    results = pool.run_tasks("checks.parser_common:task", tasks)
    results += pool.run_tasks("checks.parser_common:task", PC.audit_tasks(tier, seed, ORACLES))
    results += pool.run_tasks("checks.parser_common:valid_task", PC.valid_tasks(tier, seed, ORACLES, layouts=["upper", "crlf"]))
    results += pool.run_tasks("checks.parser_common:comment_task", PC.comment_tasks(tier, ORACLES))
    cov, viols, harness = PC.assemble(results)
    # long but trivially valid scripts (sizes around every power of two / ten): must be accepted through every entry point
    from . import c03
    rl = pool.run_tasks("checks.c03:ladder_task", sorted([(m, 8, S, "C01") for m in ("bytes", "file") for S in c03.ladder_sizes(tier)], key=lambda t: -t[2]))
    nl = sum(r["n"] for r in rl)
    for r in rl:
        viols.extend(r["violations"])
    cov["transitions"] += nl
    cov["traces_validated_against_impl"] += nl
    cov["evaluations"] += nl
    # every single-byte edit / truncation of C02's corpus, judged for the verdict (character-level neighbours of valid scripts)
    from . import c02
    rb = pool.run_tasks("checks.c02:byte_task", [(i, False, False, "c01") for i in range(len(c02.CORPUS))])
    nb = sum(r["n"] for r in rb)
    for r in rb:
        viols.extend(v for v in r["violations"] if v["property"] == "C01")
    cov["transitions"] += nb
    cov["traces_validated_against_impl"] += nb
    cov["evaluations"] += nb
    cov["byte_edits"] = dict(corpus=len(c02.CORPUS), executions=nb, edit_bytes=len(c02.EDIT_BYTES))
    cov["size_ladder"] = dict(sizes=c03.ladder_sizes(tier), line_lengths=[8], modes=["bytes", "file"], executions=nl)
    return dict(violations=viols, coverage=cov, harness_errors=harness, assumptions=PC.ASSUMPTIONS)


def replay(payload):
    if payload.get("case", {}).get("ladder"):
        from . import c03
        return c03.replay(payload)
    return PC.replay_text(payload, ORACLES)
