"""C01 — Parser accepts exactly the valid scripts of its supported Sieve language."""
from mc import pool, words
from . import parser_common as PC

ORACLES = ["c01"]
LAYOUTS = [l for l in words.LAYOUTS if l != "space"]


def run(tier, seed):
    tasks = PC.make_tasks(tier, seed, ORACLES, layouts=LAYOUTS, layout_depth=2, include_noreq=True)
    results = pool.run_tasks("checks.parser_common:task", tasks)
    results += pool.run_tasks("checks.parser_common:task", PC.audit_tasks(tier, seed, ORACLES))
    results += pool.run_tasks("checks.parser_common:valid_task", PC.valid_tasks(tier, seed, ORACLES, layouts=["upper", "crlf"]))
    results += pool.run_tasks("checks.parser_common:comment_task", PC.comment_tasks(tier, ORACLES))
    cov, viols, harness = PC.assemble(results)
    return dict(violations=viols, coverage=cov, harness_errors=harness, assumptions=PC.ASSUMPTIONS)


def replay(payload):
    return PC.replay_text(payload, ORACLES)
