"""C09 — Operation results mirror the server's status reply.

E3: operation x every final status reply shape of the RFC 5804 response grammar; E2-style single fault
(NO / BYE) at each step of the multi-step operations (connect with and without STARTTLS, emulated rename)."""
from mc import pool, wire, refms, wire_engine as W

OPS = {
    "havespace": ("s", 10),
    "putscript": ("s", "keep;\r\n"),
    "checkscript": ("keep;",),
    "deletescript": ("s",),
    "setactive": ("s",),
    "setactive-none": ("",),   # SETACTIVE "" (deactivate): an operation like any other
    "renamescript": ("a", "b"),
    "renamescript-same": ("a", "a"),   # RENAMESCRIPT "a" "a": the server's answer decides (NONEXISTENT / ALREADYEXISTS / OK), not the client
    "listscripts": (),
    "getscript": ("a",),
    "capability": (),
}
DATA = {
    "listscripts": [b"", b'"a" ACTIVE\r\n"b"\r\n'],
    "getscript": [b"{7}\r\nkeep;\r\n\r\n", b"{0}\r\n\r\n"],
    "capability": [b'"IMPLEMENTATION" "x"\r\n"SASL" "PLAIN"\r\n', b""],
}
EXPECT_DATA = {
    ("listscripts", 0): (None, []), ("listscripts", 1): ("a", ["b"]),
    ("getscript", 0): "keep;", ("getscript", 1): "",
    ("capability", 0): b'"IMPLEMENTATION" "x"\r\n"SASL" "PLAIN"\r\n', ("capability", 1): b"",
}


def _b(x):
    if isinstance(x, str):
        return x.encode("utf-8")
    return x


def judge(op, data_i, code, rcode, text, o, ns):
    """-> None or (symptom, explanation)"""
    if o.kind in ("livelock", "hang"):
        return (o.kind, "operation does not terminate: %s" % o.exc_msg)
    if code == b"BYE":
        if o.kind == "exc" and o.exc_type == "Error":
            return None
        return ("bye-not-error", "BYE must raise managesieve.Error, got %s" % o.brief())
    if o.kind == "exc":
        return ("exception:%s" % o.exc_type, "%s reply raised %s: %s" % (code.decode(), o.exc_type, o.exc_msg))
    if code == b"OK":
        if data_i is None:
            if o.value is True:
                return None
            return ("ok-not-success", "OK reply but result %r" % (o.value,))
        want = EXPECT_DATA[(op, data_i)]
        got = o.value
        if isinstance(got, tuple):
            got = (got[0], list(got[1]))
        if isinstance(want, tuple):
            want = (want[0], list(want[1]))
        if got == want:
            return None
        return ("ok-wrong-data", "OK reply: result %r, expected %r" % (o.value, want))
    # NO
    if o.value not in (False, None):
        return ("no-not-failure", "NO reply but result %r" % (o.value,))
    ec, em = _b(o.errcode), _b(o.errmsg)
    if rcode is None:
        okc = ec in (None, b"")
    else:
        okc = ec in (rcode, rcode.split(b" ")[0], b"(" + rcode + b")")
    if not okc:
        return ("errcode", "NO reply with code %r: errcode=%r" % (rcode, o.errcode))
    if text is None:
        okm = em in (None, b"")
    else:
        okm = em in (text, refms.enc_quoted(text)[1:-1], refms.enc_quoted(text))
    if not okm:
        return ("errmsg", "NO reply with text %r: errmsg=%r" % (text, o.errmsg))
    return None


def status_task(t):
    op, tier = t[:2]
    debug = len(t) > 2 and t[2]  # the same replies read by a client created with debug=True (its trace must not change any outcome)
    ns = None
    viols = []
    n = 0
    distinct = set()
    sample = None
    for label, line, code, rcode, text in W.status_variants():
        datas = [None]
        if op in DATA and code == b"OK":
            datas = list(range(len(DATA[op])))
        for di in datas:
            srv = W.ScriptedServer(store={"a": b"keep;\r\n"}, active="a", version=(op in ("checkscript", "renamescript", "renamescript-same")))
            s = wire.open_session(srv, debug=debug)
            reply = (DATA[op][di] if di is not None else b"") + line
            srv.script = [reply]
            if code == b"BYE":
                srv.close_after_bye = True
            s.client.errcode = None
            s.client.errmsg = b""
            o = s.call(op.split("-")[0], *OPS[op])
            n += 1
            distinct.add((label, di, o.key()))
            bad = judge(op, di, code, rcode, text, o, ns)
            if bad is None and code != b"BYE" and o.leftover:
                bad = ("unread-bytes", "%d bytes of the reply left unread" % o.leftover)
            if bad:
                viols.append({
                    "property": "C09", "engine": "wire", "signature": ["C09", op + ("/debug" if debug else ""), label, bad[0]],
                    "what": "%s answered %r: %s" % (op, reply, bad[1]),
                    "case": {"kind": "status", "op": op, "label": label, "data_i": di, "debug": debug},
                    "witness": "%s <- %r" % (op, reply), "observed": o.brief(),
                })
            elif sample is None and code == b"NO" and rcode and text:
                sample = {"op": op, "reply": reply.decode("utf-8", "replace"), "result": o.brief(), "errcode": repr(o.errcode),
                          "errmsg": repr(o.errmsg)}
    return dict(n=n, distinct=len(distinct), violations=viols, sample=sample)


def pair_task(t):
    """two replies on the SAME client object: the second result must mirror the second reply only"""
    op, part, parts = t
    shapes = [x for x in W.status_variants() if x[2] != b"BYE"]
    viols = []
    n = 0
    k = 0
    for l1, line1, code1, rc1, tx1 in shapes:
        for l2, line2, code2, rc2, tx2 in shapes:
            k += 1
            if k % parts != part or code2 != b"NO":
                continue
            srv = W.ScriptedServer(store={"a": b"keep;\r\n"}, active="a", version=True)
            s = wire.open_session(srv)
            srv.script = [line1, line2]
            s.call(op.split("-")[0], *OPS[op])
            o = s.call(op.split("-")[0], *OPS[op])
            n += 1
            bad = judge(op, None, code2, rc2, tx2, o, None)
            if bad:
                viols.append({"property": "C09", "engine": "wire", "signature": ["C09", op, "after:%s then:%s" % (l1, l2), "second-reply:" + bad[0]],
                              "what": "%s answered %r after an earlier %r on the same client: %s" % (op, line2, line1, bad[1]),
                              "case": {"kind": "pair", "op": op, "l1": l1, "l2": l2},
                              "witness": "%s <- %r then %r" % (op, line1, line2), "observed": o.brief()})
    return dict(n=n, distinct=n, violations=viols, sample=None)


def long_shapes(tier):
    """status lines at the size limits of their parts: response-code parameter and text up to the 1024 octets of a quoted string each,
    literal texts around every power of two"""
    out = []
    lens = (0, 1, 1023, 1024)
    for code in (b"OK", b"NO"):
        for pl in lens:
            for tl in lens:
                rc = None if pl == 0 else b'TAG "' + b"p" * pl + b'"'
                tx = None if tl == 0 else b"t" * tl
                line = code + (b" (" + rc + b")" if rc else b"") + (b" " + refms.enc_quoted(tx) if tx else b"") + b"\r\n"
                out.append(("%s/param%d/quoted%d" % (code.decode(), pl, tl), line, code, rc, tx))
        for k in range(6, 13 if tier == "quick" else 17):
            for L in (2 ** k - 1, 2 ** k, 2 ** k + 1):
                tx = (b"line of text\r\n" * (L // 14 + 1))[:L]
                out.append(("%s/code/literal%d" % (code.decode(), L), code + b" (QUOTA/MAXSIZE) " + refms.enc_literal(tx) + b"\r\n", code, b"QUOTA/MAXSIZE", tx))
    # non-ASCII texts in which a multi-octet character starts at every offset modulo its width (anything that cuts the text by octets
    # somewhere splits one of them), quoted and literal, for all three status atoms
    for code in (b"OK", b"NO", b"BYE"):
        for ch_ in ("\u00e9", "\u20ac", "\U0001F600"):
            for off in range(len(ch_.encode("utf-8"))):
                tx = (b"a" * off) + ch_.encode("utf-8") * 40
                out.append(("%s/none/utf8-quoted" % code.decode(), code + b" " + refms.enc_quoted(tx) + b"\r\n", code, None, tx))
                out.append(("%s/code/utf8-literal" % code.decode(), code + b" (TRYLATER) " + refms.enc_literal(tx) + b"\r\n", code, b"TRYLATER", tx))
    return out


def long_task(t):
    op, tier = t
    viols = []
    n = 0
    for label, line, code, rcode, text in long_shapes(tier):
        for seg in (None, ("cap", 1), ("cap", 7), ("cap", 1460), ("cap", 4096), ("cuts", [len(line) - 2]), ("cuts", [len(line) - 1])):
            srv = W.ScriptedServer(store={"a": b"keep;\r\n"}, active="a", version=True)
            s = wire.open_session(srv)
            srv.script = [line]
            if code == b"BYE":
                srv.close_after_bye = True
            s.client.errcode = None
            s.client.errmsg = b""
            s.cur_socket().set_seg(seg)
            o = s.call(op, *OPS[op])
            n += 1
            bad = judge(op, None, code, rcode, text, o, None)
            if bad is None and o.leftover and code != b"BYE":
                bad = ("unread-bytes", "%d bytes of the reply left unread" % o.leftover)
            if bad:
                viols.append({"property": "C09", "engine": "wire", "signature": ["C09", op, "long:" + label.rstrip("0123456789") + ("/segmented" if seg else ""), bad[0]],
                              "what": "%s answered a %d-octet status line (%s) delivered %r: %s" % (op, len(line), label, seg, bad[1][:200]),
                              "case": {"kind": "long", "op": op, "label": label, "seg": list(seg) if seg else None},
                              "witness": "%s <- %s delivered %r" % (op, label, seg), "observed": o.brief()[:120]})
    return dict(n=n, distinct=n, violations=viols, sample=None)


STEPS_CONNECT = ["GREETING", "STARTTLS", "TLSCAPS", "AUTHSTART", "AUTHRESULT"]
STEPS_RENAME = ["LISTSCRIPTS", "GETSCRIPT", "PUTSCRIPT", "SETACTIVE", "DELETESCRIPT"]


def multi_task(t):
    kind = t
    viols = []
    n = 0
    distinct = set()
    if kind == "connect":
        for starttls, mech in ((False, b"PLAIN"), (True, b"PLAIN"), (False, b"LOGIN"), (False, b"DIGEST-MD5"), (True, b"DIGEST-MD5 PLAIN"), (False, b"OAUTHBEARER")):
            for step in STEPS_CONNECT:
                if not starttls and step in ("STARTTLS", "TLSCAPS"):
                    continue
                for action in ("NO", "BYE"):
                    if step in ("GREETING", "TLSCAPS") and action == "NO":
                        continue  # a greeting is OK or BYE
                    caps = [(b"IMPLEMENTATION", b"x"), (b"SASL", mech), (b"SIEVE", b"fileinto")]
                    srv = refms.RefServer(starttls=True, caps_plain=caps, caps_tls=caps, faults=[(step, 0, action)])
                    srv.digest_users = {"user": "pass"}
                    s = wire.open_session(srv, starttls=starttls)
                    o = s.connect_outcome
                    n += 1
                    distinct.add((starttls, step, action, o.key()))
                    bad = None
                    if o.kind in ("livelock", "hang"):
                        bad = (o.kind, "connect does not terminate")
                    elif action == "BYE":
                        if not (o.kind == "exc" and o.exc_type == "Error"):
                            bad = ("bye-not-error", "BYE at %s must raise Error, got %s" % (step, o.brief()))
                    else:
                        if o.kind == "exc" and o.exc_type != "Error":
                            bad = ("exception:%s" % o.exc_type, "NO at %s raised %s" % (step, o.brief()))
                        elif o.kind == "ret" and o.value not in (False, None):
                            bad = ("no-not-failure", "NO at %s but connect returned %r" % (step, o.value))
                        elif o.kind == "ret" and (_b(o.errmsg) != b"injected refusal" or _b(o.errcode) not in (None, b"")):
                            bad = ("errmsg", "NO \"injected refusal\" at %s: errcode=%r errmsg=%r" % (step, o.errcode, o.errmsg))
                    if bad:
                        viols.append({"property": "C09", "engine": "wire",
                                      "signature": ["C09", "connect" + ("+starttls" if starttls else "") + "/" + mech.decode().split()[0], "%s@%s" % (action, step), bad[0]],
                                      "what": bad[1], "case": {"kind": "connect", "starttls": starttls, "step": step, "action": action},
                                      "witness": "connect(starttls=%s) with %s at %s" % (starttls, action, step), "observed": o.brief()})
        # all OK: success
        for starttls in (False, True):
            srv = refms.RefServer(starttls=True)
            s = wire.open_session(srv, starttls=starttls)
            n += 1
            if not (s.connect_outcome.kind == "ret" and s.connect_outcome.value is True):
                viols.append({"property": "C09", "engine": "wire", "signature": ["C09", "connect" + ("+starttls" if starttls else ""), "all-OK", "ok-not-success"],
                              "what": "every step answered OK but connect gave %s" % s.connect_outcome.brief(),
                              "case": {"kind": "connect", "starttls": starttls, "step": None, "action": None},
                              "witness": "connect all OK", "observed": s.connect_outcome.brief()})
    else:
        for active in ("a", None):
            for step in STEPS_RENAME:
                if step == "SETACTIVE" and active is None:
                    continue
                for action in ("NO", "BYE"):
                    srv = refms.RefServer(store={"a": b"keep;\r\n", "z": b"stop;\r\n"}, active=active, version=False,
                                          faults=[(step, 0, action)])
                    s = wire.open_session(srv)
                    o = s.call("renamescript", "a", "b")
                    n += 1
                    distinct.add((active, step, action, o.key()))
                    bad = None
                    if o.kind in ("livelock", "hang"):
                        bad = (o.kind, "renamescript does not terminate")
                    elif action == "BYE":
                        if not (o.kind == "exc" and o.exc_type == "Error"):
                            bad = ("bye-not-error", "BYE at %s must raise Error, got %s" % (step, o.brief()))
                    else:
                        if o.kind == "exc":
                            bad = ("exception:%s" % o.exc_type, "NO at %s raised %s" % (step, o.brief()))
                        elif o.value not in (False, None):
                            bad = ("no-not-failure", "NO at %s but renamescript returned %r" % (step, o.value))
                        elif _b(o.errmsg) != b"injected refusal" or _b(o.errcode) not in (None, b""):
                            bad = ("errmsg", "NO \"injected refusal\" at %s: errcode=%r errmsg=%r" % (step, o.errcode, o.errmsg))
                    if bad:
                        viols.append({"property": "C09", "engine": "wire", "signature": ["C09", "renamescript-emulated", "%s@%s" % (action, step), bad[0]],
                                      "what": bad[1], "case": {"kind": "rename", "active": active, "step": step, "action": action},
                                      "witness": "emulated rename with %s at %s" % (action, step), "observed": o.brief()})
    return dict(n=n, distinct=len(distinct), violations=viols, sample=None)


def run(tier, seed):
    r1 = pool.run_tasks("checks.c09:status_task", [(op, tier) for op in OPS] + [(op, tier, True) for op in OPS])
    r2 = pool.run_tasks("checks.c09:multi_task", ["connect", "rename"])
    pair_ops = ["havespace", "getscript"] if tier == "quick" else list(OPS)
    r3 = pool.run_tasks("checks.c09:pair_task", [(op, i, 8) for op in pair_ops for i in range(8)])
    r4 = pool.run_tasks("checks.c09:long_task", [(op, tier) for op in ("havespace", "putscript", "deletescript", "setactive")])
    res = r1 + r2 + r3 + r4
    n = sum(r["n"] for r in res)
    viols = []
    for r in res:
        viols.extend(r["violations"])
    cov = dict(states=n, transitions=n, traces_validated_against_impl=n, evaluations=n,
               distinct_nontrivial=sum(r["distinct"] for r in res),
               rule="E3: 9 operations x every status reply shape (OK/NO/BYE x response code none/atom/slash/parameter/WARNINGS x text "
                    "none/quoted/escaped/empty/literal/multi-line literal/non-ASCII), data-bearing operations with 2 data variants; NO/BYE injected "
                    "at each step of connect (with and without STARTTLS) and of the emulated rename",
               samples=[r["sample"] for r in res if r["sample"]][:6] or [{"note": "none"}], exhaustive=True,
               status_shapes=len(W.status_variants()))
    return dict(violations=viols, coverage=cov, harness_errors=[],
                assumptions=["where the property is silent both spellings are accepted: errcode as atom or full parenthesised content; errmsg as decoded "
                             "or escaped text; no code/text => None or empty", "upper-case status atoms only"])


def replay(payload):
    c = payload["case"]
    sig = payload["signature"]
    if c["kind"] == "pair":
        out = []
        for i in range(8):
            out.extend(pair_task((c["op"], i, 8))["violations"])
        return [v for v in out if v["signature"] == sig]
    if c["kind"] == "long":
        r = long_task((c["op"], "thorough"))
        return [v for v in r["violations"] if v["case"]["label"] == c["label"] and v["case"]["seg"] == c["seg"]]
    if c["kind"] == "status":
        r = status_task((c["op"], "quick", bool(c.get("debug"))))
    else:
        r = multi_task("connect" if c["kind"] == "connect" else "rename")
    return [v for v in r["violations"] if v["signature"] == sig]
