"""C20 — Registered custom commands are parsed and printed according to their definition.

Configurations (E3, complete within bounds): definitions of the documented shape; programs: E1 over the
definition's own alphabet; oracle: reference PDA instantiated from the same abstract definition."""
import itertools

from mc import pool, seams, parser_engine as E, words
from mc.refsieve import table as T
from . import parser_common as PC

TAG_KINDS = ["plain", "str", "num", "sl", "sl-scalar", "values", "two", "sl-values"]
POS_KINDS = ["s", "n", "sl"]
EXT = "vnd.Example.x-Ext"  # capability strings are compared as written: the name has upper-case letters on purpose


def definitions(tmax, rmax):
    """abstract definitions: (role, ext?, [tag kinds], [positional kinds])"""
    out = []
    for t in range(0, tmax + 1):
        for tags in itertools.product(TAG_KINDS, repeat=t):
            for r in range(1, rmax + 1):
                for pos in itertools.product(POS_KINDS, repeat=r):
                    for role in ("action", "test"):
                        for ext in (False, True):
                            out.append((role, ext, tags, pos))
    return out


def build(defn, k):
    """-> (identifier, impl class, reference table entry, slot names, sigma pieces)"""
    ns = seams.load()
    role, ext, tags, pos = defn
    # identifiers that contain the word the library strips from class names, at the end / in the middle / not at all
    ident = ("zz%d", "zz%dcommand", "subcommand%dx")[k % 3] % k
    args = []
    slots = []
    slot_names = []
    tag_syms = []
    param_syms = []
    for i, kind in enumerate(tags):
        name = "opt%d" % i
        t = ":t%d" % i
        d = {"name": name, "type": ["tag"], "write_tag": True, "values": [t], "required": False}
        if kind == "plain":
            slots.append({t: (None, None, None)})
        elif kind == "str":
            d["extra_arg"] = {"type": "string", "required": False}
            slots.append({t: (None, "s", None)})
        elif kind == "num":
            d["extra_arg"] = {"type": "number", "required": False}
            slots.append({t: (None, "n", None)})
        elif kind == "sl":
            d["extra_arg"] = {"type": ["string", "stringlist"], "required": False}
            slots.append({t: (None, "sl", None)})
        elif kind == "sl-scalar":
            # README spelling: "extra_arg": {"type": "stringlist"} (a string list is a bracketed list or a single string)
            d["extra_arg"] = {"type": "stringlist", "required": False}
            slots.append({t: (None, "sl", None)})
        elif kind == "values":
            # a restricted value set is a set of strings: letter case is part of the value ("High" is allowed, "high" is not)
            d["extra_arg"] = {"type": "string", "values": ['"v1"', '"High"'], "required": False}
            slots.append({t: (None, "s", ('"v1"', '"High"'))})
            param_syms += ['"v1"', '"zz"', '"High"', '"high"']
        elif kind == "sl-values":
            # a list-typed parameter restricted to a value set: a scalar must be in the set, a list must not hold a member outside it
            d["extra_arg"] = {"type": "stringlist", "values": ['"v1"', '"High"'], "required": False}
            slots.append({t: (None, "sl", ('"v1"', '"High"'))})
            param_syms += ['"v1"', '"zz"', '[ "zz" , "v1" ]', '[ "v1" , "zz" , "High" ]', '[ "v1" ]']
        elif kind == "two":
            t2 = ":u%d" % i
            d["values"] = [t, t2]
            d["extra_arg"] = {"type": "string", "valid_for": [t]}
            slots.append({t: (None, "s", None), t2: (None, None, None)})
            tag_syms.append(t2)
        args.append(d)
        slot_names.append(name)
        tag_syms.append(t)
    pos_names = []
    for i, kind in enumerate(pos):
        name = "req%d" % i
        typ = {"s": ["string"], "n": ["number"], "sl": ["string", "stringlist"]}[kind]
        args.append({"name": name, "type": typ, "required": True})
        pos_names.append(name)
    base = ns.commands.ActionCommand if role == "action" else ns.commands.TestCommand
    attrs = {"args_definition": args}
    if ext:
        attrs["extension"] = EXT
    cls = type(ident.capitalize() + "Command", (base,), attrs)
    entry = dict(role=role, ext=EXT if ext else None, slots=slots, pos=list(pos), optfirst=False, tests=0, block=False,
                 follows=None)
    return ident, cls, entry, slot_names, pos_names, tag_syms, param_syms


def register(ns, cls, k):
    """add_commands takes 'a single Command Object or list of Command Objects', i.e. any iterable: every call shape in turn"""
    class NotACommand:  # does not end in "Command": skipped by add_commands, must not disturb its neighbours
        pass

    shapes = [lambda: cls, lambda: [cls], lambda: (cls,), lambda: (c for c in [cls]), lambda: iter([NotACommand, cls]), lambda: {cls},
              lambda: filter(None, [cls]), lambda: [NotACommand, cls]]
    ns.commands.add_commands(shapes[k % len(shapes)]())


def def_task(t):
    k, defn, depth, seed = t
    ns = seams.load()
    ident, cls, entry, slot_names, pos_names, tag_syms, param_syms = build(defn, k)
    role, ext, tags, pos = defn
    table = dict(T.COMMANDS)
    table[ident] = entry
    sibling = "zy%d" % k
    register(ns, cls, k)
    try:
        sig = list(tag_syms)
        if tag_syms:
            t0 = tag_syms[-1]
            sig.append(t0[:2] + t0[2:].upper() if len(t0) > 2 else t0.upper())
        # (the list symbol and the multi-line symbol alternate between definitions: one-member list / list whose last member repeats
        # the first; lower-case / upper-case keyword - every definition kind meets each of them under some k)
        sig += sorted(set(param_syms)) + [":foreign", "STR", "LISTDUP" if k % 2 else "LIST1", "NUM", "TEXT:\nabc\n." if (k // 2) % 2 else "ML"]
        prefix = ("require", '"%s"' % EXT, ";") if ext else ()
        if role == "test":
            prefix = prefix + ("if", ident)
            sig += ["{", "}", ";"]
        else:
            prefix = prefix + (ident,)
            sig += [";", "{"]
        scn = dict(name="def%d" % k, prefix=prefix, sigma=sig)

        def post(case, st):
            out = []
            if case.obs.verdict == "ACC" and case.v.kind == "VALID":
                # arguments recorded under the defined names
                bad = names_check(case, ident, defn, slot_names, pos_names, ns)
                if bad:
                    out.append(E.viol("C20", "names", case, "NAMES", "custom", bad[0], None, bad[1]))
                st.executions += 2
                r = E.roundtrip(case.text)
                if r is not None:
                    out.append(E.viol("C20", "roundtrip:" + r[0], case, "ROUNDTRIP", "custom", _kinds(defn), None, r[2]))
                # the state abstraction merges words that differ only in how a string is spelt; the serialiser does not: every accepted
                # use is repeated with each of its strings spelt as a multi-line literal (both keyword cases) and with escapes
                if case.word is not None and not out:
                    for i, sym in enumerate(case.word):
                        if sym != "STR" or i < len(prefix):
                            continue
                        for alt in ("ML", "TEXT:\nabc\n.", '"a\\"b\\\\"'):
                            w2 = case.word[:i] + (alt,) + case.word[i + 1:]
                            c2 = E.execute(w2, commands=(table, T.KNOWN_EXTENSIONS + (EXT,)), want_config=False)
                            st.executions += 1
                            out.extend(E.oracle_c01(c2))
                            if c2.obs.verdict == "ACC" and c2.v.kind == "VALID":
                                r2 = E.roundtrip(c2.text)
                                st.executions += 2
                                if r2 is not None:
                                    out.append(E.viol("C20", "roundtrip:" + r2[0], c2, "ROUNDTRIP", "custom", _kinds(defn), None, r2[2]))
            return out

        st, viols = E.bfs(scn, depth, [E.oracle_c01, E.oracle_c02, E.oracle_c03], commands=(table, T.KNOWN_EXTENSIONS + (EXT,)),
                          post=post, order_seed=seed)
        # without its require an extension-bound custom command must be refused
        if ext:
            body = prefix[3:]
            c = E.execute(body + tuple(required_syms(pos)) + (("{", "}") if role == "test" else (";",)),
                          commands=(table, T.KNOWN_EXTENSIONS + (EXT,)), want_config=False)
            st.executions += 1
            viols.extend(E.oracle_c01(c))
            # ... and a require naming the extension in another letter case names another extension
            for wrong in (EXT.lower(), EXT.upper()):
                c = E.execute(("require", '"%s"' % wrong, ";") + body + tuple(required_syms(pos)) + (("{", "}") if role == "test" else (";",)),
                              commands=(table, T.KNOWN_EXTENSIONS + (EXT,)), want_config=False)
                st.executions += 1
                if c.obs.verdict == "ACC":
                    viols.append(E.viol("C20", "accepts-invalid", c, "EXT_CMD", "custom", "require-in-other-case", None,
                                        "use accepted although only %r was required (the command needs %r)" % (wrong, EXT)))
            # ... while the extension named in any require shape loads it: after repeated / already loaded names, in a second require
            use = body + tuple(required_syms(pos)) + (("{", "}") if role == "test" else (";",))
            for req in ((("require", "[", '"fileinto"', ",", '"fileinto"', ",", '"%s"' % EXT, "]", ";")),
                        (("require", '"fileinto"', ";", "require", "[", '"fileinto"', ",", '"%s"' % EXT, "]", ";")),
                        (("require", "[", '"%s"' % EXT, ",", '"%s"' % EXT, "]", ";"))):
                c = E.execute(req + use, commands=(table, T.KNOWN_EXTENSIONS + (EXT,)), want_config=False)
                st.executions += 1
                viols.extend(E.oracle_c01(c))
        # an unregistered sibling name stays unknown
        w = ((("if", sibling) if role == "test" else (sibling,)) + tuple(required_syms(pos)) +
             (("{", "}") if role == "test" else (";",)))
        c = E.execute(w, commands=(table, T.KNOWN_EXTENSIONS + (EXT,)), want_config=False)
        st.executions += 1
        if not (c.obs.verdict == "REJ" and "unknown command" in (c.obs.error or "")):
            viols.append(E.viol("C20", "sibling-known", c, "UNKNOWN_CMD", "custom", None, None,
                                "unregistered name %s: %s" % (sibling, c.obs.brief())))
    finally:
        vars(ns.commands).pop(cls.__name__, None)
    # after removal the name must be unknown again (registration is the only source)
    for v in viols:
        v["property"] = "C20"
        s = v["signature"]
        # signatures must not depend on the generated identifier
        v["signature"] = ["C20"] + [("custom" if x == ident else x) for x in s[1:]] + [_kinds(defn)]
        v["definition"] = [defn[0], defn[1], list(defn[2]), list(defn[3])]
        v["k"] = k
    return dict(states=st.states, transitions=st.transitions, executions=st.executions, verdicts=st.verdicts,
                refkinds=st.refkinds, nontrivial=len(st.nontrivial), sample=st.samples[:1], violations=viols,
                harness_errors=st.harness_errors, max_depth=st.max_depth)


def rereg_task(t):
    """register A under a name, use it (three spellings), register B under the SAME name, then every use must follow B"""
    pairs = t
    ns = seams.load()
    viols = []
    n = 0
    for k, (da, db) in pairs:
        ident, cls_a, entry_a, *_ = build(da, k)
        _i, cls_b, entry_b, *_ = build(db, k)
        tab_b = dict(T.COMMANDS)
        tab_b[ident] = entry_b
        ext = T.KNOWN_EXTENSIONS + (EXT,)

        def uses(defn, spell):
            role, e, tags, pos = defn
            w = (("require", '"%s"' % EXT, ";") if e else ())
            body = (spell,) + tuple(required_syms(pos))
            return w + ((("if",) + body + ("{", "}")) if role == "test" else (body + (";",)))

        try:
            ns.commands.add_commands(cls_a)
            for spell in (ident, ident.upper(), ident.capitalize()):
                E.execute(uses(da, spell), commands=(dict(T.COMMANDS, **{ident: entry_a}), ext), want_config=False)
                n += 1
            ns.commands.add_commands(cls_b)
            for spell in (ident, ident.upper(), ident.capitalize()):
                for d in (da, db):
                    c = E.execute(uses(d, spell), commands=(tab_b, ext), want_config=False)
                    n += 1
                    for v in E.oracle_c01(c) + E.oracle_c03(c):
                        v["property"] = "C20"
                        v["signature"] = ["C20", "re-registered:" + v["signature"][1], v["signature"][2], "custom",
                                          "spelling:" + ("lower" if spell == ident else ("upper" if spell == ident.upper() else "capitalised")), None,
                                          _kinds(da) + " -> " + _kinds(db)]
                        v["rereg"] = [[da[0], da[1], list(da[2]), list(da[3])], [db[0], db[1], list(db[2]), list(db[3])]]
                        v["k"] = k
                        viols.append(v)
        finally:
            vars(ns.commands).pop(cls_a.__name__, None)
    return dict(states=0, transitions=n, executions=n, verdicts={}, refkinds={}, nontrivial=0, sample=[], violations=viols, harness_errors=[], max_depth=0)


def inherit_task(t):
    """B derives from the registered command A and overrides args_definition; uses of A and B in both orders"""
    pairs = t
    ns = seams.load()
    viols = []
    n = 0
    ext = T.KNOWN_EXTENSIONS + (EXT,)
    for k, (da, db) in pairs:
        for order in ("A-then-B", "B-then-A"):
            ia, cls_a, entry_a, *_ = build(da, k)
            ib, cls_b0, entry_b, *_ = build(db, k + 1)
            cls_b = type(cls_b0.__name__, (cls_a,), {"args_definition": cls_b0.args_definition, **({"extension": EXT} if db[1] else {"extension": None})})
            tab = dict(T.COMMANDS)
            tab[ia] = entry_a
            tab[ib] = entry_b

            def use(defn, ident):
                role, e, tags, pos = defn
                w = (("require", '"%s"' % EXT, ";") if e else ())
                body = (ident,) + tuple(required_syms(pos))
                return w + ((("if",) + body + ("{", "}")) if role == "test" else (body + (";",)))

            try:
                ns.commands.add_commands([cls_a, cls_b])
                seq = [(da, ia), (db, ib)] if order == "A-then-B" else [(db, ib), (da, ia)]
                for defn, ident in seq + seq:
                    c = E.execute(use(defn, ident), commands=(tab, ext), want_config=False)
                    n += 1
                    for v in E.oracle_c01(c) + E.oracle_c03(c):
                        v["property"] = "C20"
                        v["signature"] = ["C20", "derived-class:" + v["signature"][1], v["signature"][2], "custom", order, None, _kinds(da) + " <- " + _kinds(db)]
                        v["inherit"] = [[da[0], da[1], list(da[2]), list(da[3])], [db[0], db[1], list(db[2]), list(db[3])]]
                        v["k"] = k
                        viols.append(v)
            finally:
                vars(ns.commands).pop(cls_a.__name__, None)
                vars(ns.commands).pop(cls_b.__name__, None)
    return dict(states=0, transitions=n, executions=n, verdicts={}, refkinds={}, nontrivial=0, sample=[], violations=viols, harness_errors=[], max_depth=0)


def _kinds(defn):
    return "%s/%s/tags=%s/pos=%s" % (defn[0], "ext" if defn[1] else "noext", "+".join(defn[2]) or "-", "+".join(defn[3]))


def required_syms(pos):
    return [{"s": "STR", "n": "NUM", "sl": "STR"}[p] for p in pos]


def names_check(case, ident, defn, slot_names, pos_names, ns):
    """the implementation's node for the custom command must hold every tag under its slot name, every
    parameter under the same name in extra_arguments, and positionals under their names in order"""
    p = ns.parser.Parser()
    if not p.parse(case.text):
        return ("reparse", "second parse of the same text rejected")
    node = None
    for top in p.result:
        for n in top.walk():
            if n.name == ident:
                node = n
    if node is None:
        return ("missing-node", "custom command not found in the tree")
    # reference tree for this command
    ref = None

    def find(nodes):
        nonlocal ref
        for n in nodes:
            if n[0] == ident:
                ref = n
            find(n[3])
            find(n[4] or ())

    find(case.v.tree)
    if ref is None:
        return ("ref-missing", "reference tree lacks the command")
    exp_args = {}
    exp_extra = {}
    role, ext, tags, pos = defn
    for t, param in ref[1]:
        # slot index from the tag spelling (:t<i> / :u<i>)
        i = int(t[2:])
        exp_args[slot_names[i]] = t
        if param is not None:
            exp_extra[slot_names[i]] = list(param[1]) if param[0] == "sl" else param[1]
    for name, val in zip(pos_names, ref[2]):
        exp_args[name] = list(val[1]) if val[0] == "sl" else val[1]
    got_args = {k: (v.lower() if isinstance(v, str) and v.startswith(":") else v) for k, v in node.arguments.items()}
    if got_args != exp_args:
        return ("arguments", "arguments recorded as %r, definition says %r" % (node.arguments, exp_args))
    if dict(node.extra_arguments) != exp_extra:
        return ("extra_arguments", "tag parameters recorded as %r, expected %r" % (node.extra_arguments, exp_extra))
    return None


def run(tier, seed):
    if tier == "quick":
        defs = definitions(2, 2)
        depth = 5
    else:
        defs = definitions(2, 3)
        depth = 7
    tasks = [(k, d, min(depth, 2 * len(d[2]) + len(d[3]) + 2), seed) for k, d in enumerate(defs)]
    results = pool.run_tasks("checks.c20:def_task", tasks, chunksize=4)
    small = definitions(1, 2)
    pairs = [(10000 + i, (a, b)) for i, (a, b) in enumerate(itertools.permutations(small, 2)) if a[0] == b[0]]
    if tier == "quick":
        pairs = pairs[::7]
    chunks = [pairs[i::16] for i in range(16)]
    results += pool.run_tasks("checks.c20:rereg_task", [c for c in chunks if c])
    ipairs = [(20000 + 2 * i, (a, b)) for i, (a, b) in enumerate(itertools.permutations(small, 2)) if a[0] == b[0] and len(a[3]) != len(b[3])]
    if tier == "quick":
        ipairs = ipairs[::5]
    chunks = [ipairs[i::16] for i in range(16)]
    results += pool.run_tasks("checks.c20:inherit_task", [c for c in chunks if c])
    cov = dict(states=0, transitions=0, executions=0)
    viols = []
    harness = []
    verdicts = {}
    refk = {}
    nt = 0
    samples = []
    for r in results:
        cov["states"] += r["states"]
        cov["transitions"] += r["transitions"]
        cov["executions"] += r["executions"]
        nt += r["nontrivial"]
        viols.extend(r["violations"])
        harness.extend(r["harness_errors"])
        for k, v in r["verdicts"].items():
            verdicts[k] = verdicts.get(k, 0) + v
        for k, v in r["refkinds"].items():
            refk[k] = refk.get(k, 0) + v
        if r["sample"] and len(samples) < 6:
            samples.append(r["sample"][0])
    coverage = dict(
        states=cov["states"], transitions=cov["transitions"], traces_validated_against_impl=cov["executions"],
        evaluations=cov["executions"], distinct_nontrivial=nt,
        rule="E3 over definitions (tag kinds %s x positional kinds %s x action/test x extension) each registered with add_commands under a "
             "fresh name; E1 BFS over the definition's own alphabet; oracle = reference PDA instantiated from the same abstract "
             "definition (verdict, tree, argument names, round trip), plus unregistered sibling and missing-require probes" % (TAG_KINDS, POS_KINDS),
        samples=samples or [{"note": "none"}], exhaustive=True, definitions=len(defs), impl_verdicts=verdicts, reference_verdicts=refk,
        bounds=dict(max_tags=2, max_required=2 if tier == "quick" else 3, depth=depth),
    )
    return dict(violations=viols, coverage=coverage, harness_errors=harness,
                assumptions=PC.ASSUMPTIONS + ["custom definitions limited to the documented shape (README 'Extending the parser')"])


def replay(payload):
    if payload.get("inherit"):
        da, db = [(d[0], d[1], tuple(d[2]), tuple(d[3])) for d in payload["inherit"]]
        r = inherit_task([(payload.get("k", 20000), (da, db))])
        return [v for v in r["violations"] if v["signature"][:5] == payload["signature"][:5]]
    if payload.get("rereg"):
        da, db = [(d[0], d[1], tuple(d[2]), tuple(d[3])) for d in payload["rereg"]]
        r = rereg_task([(payload.get("k", 10000), (da, db))])
        return [v for v in r["violations"] if v["signature"][:5] == payload["signature"][:5]]
    defn = payload["definition"]
    defn = (defn[0], defn[1], tuple(defn[2]), tuple(defn[3]))
    ns = seams.load()
    k = payload.get("k", 0)
    ident, cls, entry, slot_names, pos_names, tag_syms, param_syms = build(defn, k)
    table = dict(T.COMMANDS)
    table[ident] = entry
    register(ns, cls, k)
    try:
        text = bytes.fromhex(payload["text_hex"])
        case = E.execute((), text=text, want_config=False, commands=(table, T.KNOWN_EXTENSIONS + (EXT,)))
        out = []
        for o in (E.oracle_c01, E.oracle_c02, E.oracle_c03):
            out.extend(o(case))
        if case.obs.verdict == "ACC" and case.v.kind == "VALID":
            bad = names_check(case, ident, defn, slot_names, pos_names, ns)
            if bad:
                out.append(E.viol("C20", "names", case, "NAMES", "custom", bad[0], None, bad[1]))
            r = E.roundtrip(text)
            if r is not None:
                out.append(E.viol("C20", "roundtrip:" + r[0], case, "ROUNDTRIP", "custom", _kinds(defn), None, r[2]))
        if payload["signature"][1] == "sibling-known" and not (case.obs.verdict == "REJ" and "unknown command" in (case.obs.error or "")):
            out.append(E.viol("C20", "sibling-known", case, "UNKNOWN_CMD", "custom", None, None, "sibling still known"))
        for v in out:
            v["property"] = "C20"
        return out
    finally:
        vars(ns.commands).pop(cls.__name__, None)
