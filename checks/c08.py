"""C08 — Each client call puts exactly one well-formed command on the wire.

E3: operation x argument values (all strings up to a length over a hostile alphabet + look-alikes).
Oracle: the strict RFC 5804 command parser applied to the bytes handed to sendall during that call."""
import itertools

from mc import pool, wire, refms

CHARS = ["a", '"', "\\", "\r", "\n", "\x00", "{", "}", "5", "+", "é", " ", "\ufeff"]
SPECIAL = ["", "{5}", "{5+}", "{5+}x", "{0+}", "{1+}\r\nx", "a" * 1025, 'a"\r\nLOGOUT', "a\r\nLOGOUT\r\n", "€\U0001F600", "{3}", "{3+}\r\nabc",
           "caf\udce9", "\ud800x", "a" * 1024, "é" * 512, "é" * 513,
           "cafe\u0301", "\u212b", "\u2126m", "\uff02x\uff3c"]  # decomposed / singleton / full-width look-alikes: names are octets  # lone surrogates cannot be encoded: must be refused before writing
SIZES = [0, 1, 10, 2 ** 32 - 1, 2 ** 32, -1]

IDLE_GAPS = [60, 3600, 10 ** 5, 10 ** 9]  # virtual seconds of silence before the call (minute, hour, day, decades)
VERB = {"havespace": "HAVESPACE", "getscript": "GETSCRIPT", "putscript": "PUTSCRIPT", "checkscript": "CHECKSCRIPT",
        "deletescript": "DELETESCRIPT", "renamescript": "RENAMESCRIPT", "setactive": "SETACTIVE", "listscripts": "LISTSCRIPTS",
        "capability": "CAPABILITY", "logout": "LOGOUT"}


def values(maxlen):
    for n in range(1, maxlen + 1):
        for tup in itertools.product(CHARS, repeat=n):
            yield "".join(tup)
    for s in SPECIAL:
        yield s


def calls_for(op, val):
    """argument tuples for one value; the value is placed in every string position"""
    if op == "havespace":
        return [((val, sz), [val, sz]) for sz in (SIZES if val in ("a", "") else [10])]
    if op in ("getscript", "deletescript", "setactive"):
        return [((val,), [val])]
    if op == "putscript":
        return [((val, "keep;"), [val, "keep;"]), (("s", val), ["s", val])]
    if op == "checkscript":
        return [((val,), [val])]
    if op == "renamescript":
        return [((val, "b"), [val, "b"]), (("a", val), ["a", val])]
    return [((), [])]


def classify_value(v):
    cl = []
    if v == "":
        return "empty"
    if '"' in v:
        cl.append("quote")
    if "\\" in v:
        cl.append("backslash")
    if "\r" in v or "\n" in v:
        cl.append("crlf")
    if "\x00" in v:
        cl.append("nul")
    if v.startswith("{") and "}" in v:
        cl.append("literal-lookalike")
    if len(v.encode("utf-8", "replace")) > 1024:
        cl.append("long")
    if any(0xD800 <= ord(c) <= 0xDFFF for c in v):
        cl.append("surrogate")
    if any(ord(c) > 127 for c in v):
        cl.append("non-ascii")
    return "+".join(cl) or "plain"


def _encodable(expected):
    for e in expected:
        if isinstance(e, int):
            if not 0 <= e < 2 ** 32:
                return False
        else:
            try:
                e.encode("utf-8")
            except UnicodeEncodeError:
                return False
    return True


def judge(op, expected, data, o):
    """-> None | (symptom, text)"""
    if o.kind == "exc" and not data and (o.exc_type == "Error" or not _encodable(expected)):
        return None  # refused before writing anything (for values that cannot be encoded any refusal will do)
    if o.kind in ("livelock", "hang"):
        return ("no-return", "call does not return")
    cmds, left, err = refms.parse_all(data)
    if err is not None and not cmds:
        return ("malformed", "bytes on the wire are not a command: %s" % err)
    if err is not None or left:
        return ("trailing-bytes", "after one command: %s" % (err or left[:40]))
    if len(cmds) != 1:
        return ("injection", "%d commands on the wire: %s" % (len(cmds), [c[0] for c in cmds]))
    verb, args = cmds[0]
    if verb != VERB[op]:
        return ("wrong-verb", "verb %s for %s" % (verb, op))
    if len(args) != len(expected):
        return ("wrong-arity", "%d arguments, expected %d" % (len(args), len(expected)))
    for (kind, val), exp in zip(args, expected):
        if isinstance(exp, int):
            if kind != "number" or int(val) != exp:
                return ("wrong-number", "number argument %r for %r" % (val, exp))
        else:
            if kind == "number":
                return ("string-as-number", "string sent as number")
            if val != exp.encode("utf-8"):
                return ("wrong-value", "argument decodes to %r, caller passed %r" % (val, exp))
    return None


def op_task(t):
    op, maxlen = t[:2]
    tls = len(t) > 2 and t[2]  # the same calls on a session that went through STARTTLS: the command must be on the TLS channel
    gap = t[3] if len(t) > 3 else 0  # virtual seconds that pass between connect() and the call (the clock seam of mc/wire.py)
    viols = []
    n = 0
    distinct = set()
    sample = None
    srv = refms.RefServer(store={"a": b"keep;\r\n"}, active="a", version=True)
    s = wire.open_session(srv)
    vals = list(values(maxlen)) if op not in ("listscripts", "capability") else ["a"]
    if tls:
        vals = ["a"] + SPECIAL[:12] if op not in ("listscripts", "capability") else ["a"]
    for val in vals:
        for args, expected in calls_for(op, val):
            # fresh session per call: a hostile value may desynchronise the stream
            srv = refms.RefServer(store={"a": b"keep;\r\n"}, active="a", version=True, starttls=tls)
            s = wire.open_session(srv, starttls=tls)
            s.idle_gap = gap
            m = wire.mark(s)
            plain_before = len(s.plain.written)
            o = s.call(op, *args)
            data = wire.written_since(s, m)
            n += 1
            bad = judge(op, expected, data, o)
            if bad is None and tls and len(s.plain.written) != plain_before:
                bad = ("cleartext-after-starttls", "after STARTTLS %d octets were written to the plain socket: %r" % (len(s.plain.written) - plain_before, s.plain.written[plain_before:][:60]))
            if bad is None and srv.violations:
                bad = ("protocol-violation", srv.violations[0])
            distinct.add((classify_value(val), bad[0] if bad else None, o.kind))
            if bad:
                viols.append({"property": "C08", "engine": "wire", "signature": ["C08", op + ("/tls" if tls else "") + ("/idle" if gap else ""), classify_value(val), bad[0]],
                              "what": "%s%r wrote %r: %s" % (op, args if len(repr(args)) < 80 else "(long)", data[:80], bad[1]),
                              "case": {"op": op, "tls": bool(tls), "gap": gap, "args": [a if isinstance(a, int) else a for a in args]},
                              "witness": "%s%r" % (op, args if len(repr(args)) < 120 else "(1025-char name)"), "observed": repr(data[:100])})
            elif sample is None and '"' in val and o.kind == "ret":
                sample = {"call": "%s%r" % (op, args), "wire": data.decode("utf-8", "replace")}
    return dict(op=op, n=n, distinct=len(distinct), violations=viols, sample=sample)


# every response code registered by RFC 5804 (1.3): whatever the refusal says, the call has put exactly one command on the wire
RESPONSE_CODES = ["AUTH-TOO-WEAK", "ENCRYPT-NEEDED", "QUOTA", "QUOTA/MAXSCRIPTS", "QUOTA/MAXSIZE", 'REFERRAL "sieve://other.example.org"', "SASL \"abc=\"",
                  "TRANSITION-NEEDED", "TRYLATER", "ACTIVE", "NONEXISTENT", "ALREADYEXISTS", 'TAG "x"', "WARNINGS", "X-UNKNOWN"]


def refusal_task(op):
    viols = []
    n = 0
    distinct = set()
    for code in [None] + RESPONSE_CODES:
        for action_kind in ("NO", "BYE"):
            for val in ("a", 'q"x'):
                for args, expected in calls_for(op, val):
                    if code is None:
                        action = action_kind
                    elif action_kind == "NO":
                        action = "NO:" + code
                    else:
                        continue
                    srv = refms.RefServer(store={"a": b"keep;\r\n"}, active="a", version=True, faults=[(VERB[op], 0, action)])
                    s = wire.open_session(srv)
                    m = wire.mark(s)
                    o = s.call(op, *args)
                    data = wire.written_since(s, m)
                    n += 1
                    bad = judge(op, expected, data, o)
                    if bad is None and srv.violations:
                        bad = ("protocol-violation", srv.violations[0])
                    distinct.add((code, action_kind, bad[0] if bad else None, o.kind))
                    if bad:
                        viols.append({"property": "C08", "engine": "wire", "signature": ["C08", op + "/refused", str(code).split(" ")[0], bad[0]],
                                      "what": "%s%r answered %s wrote %r: %s" % (op, args, action, data[:80], bad[1]),
                                      "case": {"op": op, "refusal": action, "args": list(args)},
                                      "witness": "%s%r answered %s" % (op, args, action), "observed": repr(data[:100])})
    return dict(op=op + "-refused", n=n, distinct=len(distinct), violations=viols, sample=None)


def lookalike(body):
    """the name that equals the literal encoding of a script body"""
    return "{%d+}\r\n%s" % (len(body.encode("utf-8")), body)


def pair_task(t):
    """two calls in one process that share octets: a script body sent as content, and a NAME equal to that body's literal
    encoding (and the other way round); neither call may change how the other is written (no cross-call memo keyed on the octets)"""
    if t[0] == "one":
        bodies = [t[1]]
    else:
        lo, hi, maxlen = t
        bodies = [v for v in values(maxlen) if _encodable([v])][lo:hi]
    viols = []
    n = 0
    cur = [None]

    def one(tag, op, args, expected):
        nonlocal n
        srv = refms.RefServer(store={"a": b"keep;\r\n"}, active="a", version=True)
        s = wire.open_session(srv)
        m = wire.mark(s)
        o = s.call(op, *args)
        data = wire.written_since(s, m)
        n += 1
        bad = judge(op, expected, data, o)
        if bad:
            viols.append({"property": "C08", "engine": "wire", "signature": ["C08", op, "pair:" + tag, bad[0]],
                          "what": "%s: %s%r wrote %r: %s" % (tag, op, args if len(repr(args)) < 80 else "(long)", data[:80], bad[1]),
                          "case": {"pair": tag, "pair_body": cur[0], "op": op, "args": list(args)},
                          "witness": "%s then %s%r" % (tag, op, args), "observed": repr(data[:100])})

    for v in bodies:
        cur[0] = v
        # body first, then the look-alike name in every name position
        one("body-first/content", "putscript", ("s", v), ["s", v])
        one("body-first/content", "checkscript", (v,), [v])
        lk = lookalike(v)
        for op in ("deletescript", "getscript", "setactive"):
            one("body-first/name", op, (lk,), [lk])
        one("body-first/name", "renamescript", (lk, "b"), [lk, "b"])
        one("body-first/name", "putscript", (lk, "keep;"), [lk, "keep;"])
        # name first (a body never sent before in this process), then the body
        w = v + "#"
        lk = lookalike(w)
        one("name-first/name", "getscript", (lk,), [lk])
        one("name-first/name", "havespace", (lk, 10), [lk, 10])
        one("name-first/content", "checkscript", (w,), [w])
        one("name-first/content", "putscript", ("s", w), ["s", w])
    return dict(op="pairs", n=n, distinct=1, violations=viols, sample=None)


def after_refusal_task(_t):
    """calls the client refuses before writing (size out of range, a name that cannot be encoded), then another command on the SAME
    session: that command must be exactly itself on the wire"""
    viols = []
    n = 0
    refusals = [("havespace", ("s", 2 ** 32)), ("havespace", ("s", -1)), ("deletescript", ("caf\udce9",)), ("putscript", ("\ud800x", "keep;")),
                ("renamescript", ("a", "\udc80")), ("havespace", ("\udce9", 5))]
    followers = [("deletescript", ("a",)), ("putscript", ("s", "keep;")), ("havespace", ("s", 10)), ("listscripts", ()), ("setactive", ("",))]
    for rop, rargs in refusals:
        for reps in (1, 2):
            for fop, fargs in followers:
                srv = refms.RefServer(store={"a": b"keep;\r\n"}, active="a", version=True)
                s = wire.open_session(srv)
                for _ in range(reps):
                    m0 = wire.mark(s)
                    o0 = s.call(rop, *rargs)
                    w0 = wire.written_since(s, m0)
                    if not (o0.kind == "exc" and not w0):
                        break
                else:
                    m = wire.mark(s)
                    o = s.call(fop, *fargs)
                    data = wire.written_since(s, m)
                    n += 1
                    bad = judge(fop, list(fargs), data, o)
                    if bad is None and srv.violations:
                        bad = ("protocol-violation", srv.violations[0])
                    if bad:
                        viols.append({"property": "C08", "engine": "wire", "signature": ["C08", fop, "after-refused:" + rop, bad[0]],
                                      "what": "after %d refused %s%r, %s%r wrote %r: %s" % (reps, rop, rargs, fop, fargs, data[:80], bad[1]),
                                      "case": {"after_refusal": True}, "witness": "%s%r x%d then %s%r" % (rop, rargs, reps, fop, fargs), "observed": repr(data[:100])})
    return dict(op="after-refusal", n=n, distinct=1, violations=viols, sample=None)


def write_fault_task(t):
    """the write itself fails after k octets (send timeout, connection reset) for every k: whatever the client does next, the
    octets on the wire must stay a prefix of the ONE intended command - and be exactly it if the call reports an outcome other
    than an exception"""
    import socket as _socket
    op, args = t
    expected = list(args)
    viols = []
    n = 0
    # the intended command, from a fault-free run
    srv = refms.RefServer(store={"a": b"keep;\r\n"}, active="a", version=True)
    s = wire.open_session(srv)
    m = wire.mark(s)
    s.call(op, *args)
    intended = wire.written_since(s, m)
    for exc_name, make in (("timeout", lambda: _socket.timeout("timed out")), ("reset", lambda: ConnectionResetError("reset by peer")),
                           ("wantwrite", lambda: __import__("ssl").SSLWantWriteError("want write"))):
        for k in range(0, len(intended)):
            srv = refms.RefServer(store={"a": b"keep;\r\n"}, active="a", version=True)
            s = wire.open_session(srv)
            m = wire.mark(s)
            s.cur_socket().write_fault = (k, make)
            o = s.call(op, *args)
            data = wire.written_since(s, m)
            n += 1
            bad = None
            if o.kind in ("livelock", "hang"):
                bad = ("no-return", "call does not return")
            elif not intended.startswith(data):
                bad = ("not-a-prefix", "after a %s at octet %d the wire holds %r, which is not a prefix of the intended %r" % (exc_name, k, data[:80], intended[:60]))
            elif o.kind == "ret" and data != intended:
                bad = ("reported-without-sending", "the call returned %r although only %d of %d octets were written" % (o.value, len(data), len(intended)))
            if bad:
                viols.append({"property": "C08", "engine": "wire", "signature": ["C08", op, "write-fault:" + exc_name, bad[0]],
                              "what": "%s%r, send fails (%s) after %d octets: %s" % (op, args, exc_name, k, bad[1]),
                              "case": {"write_fault": [op, list(args)]}, "witness": "%s%r send %s after %d octets" % (op, args, exc_name, k),
                              "observed": repr(data[:100])})
    return dict(op=op + "-write-fault", n=n, distinct=1, violations=viols, sample=None)


WRITE_FAULT_CALLS = [("putscript", ("main", 'require "fileinto";\r\nfileinto "x";\r\n')), ("setactive", ("main",)), ("deletescript", ('q"x',)),
                     ("renamescript", ("a", "b")), ("havespace", ("s", 10)), ("getscript", ("a\r\nb",)), ("checkscript", ("keep;",)), ("listscripts", ())]


def sweep_task(t):
    """every content / name length in a window: command lengths land on every residue of any power-of-two block size"""
    op, lo, hi = t
    viols = []
    n = 0
    for k in range(lo, hi):
        if op == "putscript":
            args = ("s", "a" * k)
        elif op == "checkscript":
            args = ("b" * k,)
        elif op == "deletescript-escaped":
            # the same sweep with characters that must be escaped inside a quoted string (its 1024-octet limit counts the unescaped text)
            args = (('q"\\' + "n" * k)[:max(k, 1)],)
        else:
            args = ("n" * k,)
        verb = op.split("-")[0]
        srv = refms.RefServer(store={"a": b"keep;\r\n"}, active="a", version=True)
        s = wire.open_session(srv)
        m = wire.mark(s)
        o = s.call(verb, *args)
        data = wire.written_since(s, m)
        n += 1
        bad = judge(verb, list(args), data, o)
        if bad is None and srv.violations:
            bad = ("protocol-violation", srv.violations[0])
        if bad:
            viols.append({"property": "C08", "engine": "wire", "signature": ["C08", op, "length-sweep", bad[0]],
                          "what": "%s with a %d-character argument: %s" % (op, k, bad[1]), "case": {"op": op, "sweep_len": k},
                          "witness": "%s with a %d-character argument" % (op, k), "observed": repr(data[-40:])})
    return dict(op=op + "-sweep", n=n, distinct=1, violations=viols, sample=None)


def run(tier, seed):
    maxlen = 3 if tier == "quick" else 4
    ops = ["havespace", "getscript", "putscript", "checkscript", "deletescript", "renamescript", "setactive", "listscripts", "capability"]
    res = pool.run_tasks("checks.c08:op_task", [(op, maxlen) for op in ops] + [(op, maxlen, True) for op in ops]
                         + [(op, maxlen - 1, False, gap) for op in ops for gap in IDLE_GAPS])
    top = 9000 if tier == "quick" else 70000
    sw = []
    for op in ("putscript", "checkscript", "deletescript", "deletescript-escaped"):
        for lo in range(0, top if op != "deletescript-escaped" else 3000, 500):
            sw.append((op, lo, min(top, lo + 500)))
    res += pool.run_tasks("checks.c08:sweep_task", sw, chunksize=2)
    res += pool.run_tasks("checks.c08:write_fault_task", WRITE_FAULT_CALLS)
    res += pool.run_tasks("checks.c08:refusal_task", [op for op in ops if op in VERB])
    res += pool.run_tasks("checks.c08:after_refusal_task", [0], force_pool=True)
    nb = len([v for v in values(maxlen - 1) if _encodable([v])])
    res += pool.run_tasks("checks.c08:pair_task", [(lo, lo + 16, maxlen - 1) for lo in range(0, nb, 16)])
    n = sum(r["n"] for r in res)
    viols = []
    for r in res:
        viols.extend(r["violations"])
    cov = dict(states=n, transitions=n, traces_validated_against_impl=n, evaluations=n, distinct_nontrivial=sum(r["distinct"] for r in res),
               rule="E3: 9 operations x every string of length 1..%d over %r plus look-alikes %r in every string position; sizes %r; the bytes "
                    "written during the call are parsed by the strict RFC 5804 command parser (exactly one command, intended verb, arguments "
                    "decode to the caller's values) unless the call raised Error without writing; plus a sweep of EVERY argument length 0..9000/70000 for putscript / checkscript / "
                    "deletescript" % (maxlen, CHARS, [s if len(s) < 20 else "1025xa" for s in SPECIAL], SIZES),
               samples=[r["sample"] for r in res if r["sample"]][:5] or [{"note": "none"}], exhaustive=True)
    return dict(violations=viols, coverage=cov, harness_errors=[],
                assumptions=["strict parser: quoted strings with only \\\\ and \\\" escapes and no CR/LF/NUL, <= 1024 octets; literals non-synchronising with exact octet count"])


def replay(payload):
    c = payload["case"]
    op = c["op"]
    if "sweep_len" in c:
        r = sweep_task((op, c["sweep_len"], c["sweep_len"] + 1))
        return r["violations"]
    if c.get("refusal"):
        return [v for v in refusal_task(op)["violations"] if v["case"] == c]
    if c.get("after_refusal"):
        return [v for v in after_refusal_task(0)["violations"] if v["signature"] == payload["signature"]]
    if c.get("write_fault"):
        r = write_fault_task((c["write_fault"][0], tuple(c["write_fault"][1])))
        return [v for v in r["violations"] if v["signature"] == payload["signature"]]
    if c.get("pair"):
        r = pair_task(("one", c["pair_body"]))
        return [v for v in r["violations"] if v["signature"][:3] == payload["signature"][:3]]
    args = tuple(c["args"])
    expected = list(args)
    tls = bool(c.get("tls"))
    srv = refms.RefServer(store={"a": b"keep;\r\n"}, active="a", version=True, starttls=tls)
    s = wire.open_session(srv, starttls=tls)
    s.idle_gap = c.get("gap", 0)
    m = wire.mark(s)
    plain_before = len(s.plain.written)
    o = s.call(op, *args)
    data = wire.written_since(s, m)
    bad = judge(op, expected, data, o)
    if bad is None and tls and len(s.plain.written) != plain_before:
        bad = ("cleartext-after-starttls", "octets written to the plain socket after STARTTLS")
    if bad:
        sig = list(payload["signature"])
        sig[3] = bad[0]
        return [{"property": "C08", "signature": sig, "what": bad[1], "witness": payload.get("witness"), "observed": repr(data[:100])}]
    return []
