"""C07 — Extension use is gated by require (walk oracle on every accepted input, removal oracle on every valid word)."""
import re

from mc import pool, words, parser_engine as E
from . import parser_common as PC

ORACLES = ["c07walk"]


def run(tier, seed):
    tasks = PC.make_tasks(tier, seed, ORACLES, layouts=["upper"], layout_depth=2, post="c07removal", include_noreq=True)
    results = pool.run_tasks("checks.parser_common:task", tasks)
    results += pool.run_tasks("checks.parser_common:valid_task", PC.valid_tasks(tier, seed, ORACLES, post="c07removal", with_edits=False, layouts=["rawcomments"]))
    cov, viols, harness = PC.assemble(results)
    cov["rule"] += (" C07: every accepted input is walked against the frozen extension table; every VALID word is re-run once per "
                    "extension it uses with that name removed from its require(s).")
    return dict(violations=viols, coverage=cov, harness_errors=harness, assumptions=PC.ASSUMPTIONS)


def replay(payload):
    text = bytes.fromhex(payload["text_hex"])
    case = E.execute((), text=text, want_config=False)
    out = list(E.oracle_c07_walk(case))
    if payload["signature"][1] == "removal-reused-parser":
        ns = E.seams.load()
        p = ns.parser.Parser()
        E.seams.run_parse(bytes.fromhex(payload["prior_hex"]), parser=p, want_tree=False)
        o3 = E.seams.run_parse(text, parser=p, want_tree=False)
        if o3.verdict != "REJ" or o3.error != case.obs.error:
            out.append(E.viol("C07", "removal-reused-parser", case, payload["signature"][2], payload["signature"][3], payload["signature"][4],
                              payload["signature"][5], "reused parser: %s" % o3.brief()))
    if payload["signature"][1] == "removal":
        ext = payload["signature"][4]
        obs = case.obs
        expect = "extension '%s' not loaded" % ext
        ok = obs.verdict == "REJ" and isinstance(obs.error, str) and re.match(r"^line \d+: ", obs.error) and \
            obs.error.split(": ", 1)[1] == expect
        if not ok and case.v.kind == "INVALID" and case.v.detail == ext:
            out.append(E.viol("C07", "removal", case, case.v.reason, case.v.owner, ext, case.v.ctx, "removal replay: %s" % obs.brief()))
    return out
