"""C14 — Emulated rename never loses or overwrites a script.

E3: initial stores (old/new/bystander x absent/present/active) x fault placement (each of the five verbs x
NO/BYE/SILENCE/EOF; one fault, thorough: two) x bodies, against the reference server without VERSION."""
import itertools

from mc import pool, wire, refms

BODIES = [b"keep;\r\n", b"keep;\n# x\n", b"stop;", b"", b"OK\r\n{5}\r\nNO \"x\"\r\n", b"# \xc3\xa9\r\nkeep;\r\n",
          b"# a\xe2\x80\xa8b\x0cc\xc2\x85d\x1ce\r\nkeep;\r\n",
          b"# moved from c:\\filters\\old\r\nkeep;\r\n"]  # backslashes, no double quote  # U+2028, FF, U+0085, FS are not line ends
# bodies with k characters that the transfer encodings escape (k around every power of two), one per line, in three mixes; and plain
# bodies of the same sizes: run under fewer fault placements (ladder_task), addressed by indices after those of BODIES
LADDER_K = [1, 2, 3, 4, 5, 7, 8, 9, 15, 16, 17, 31, 32, 33, 63, 64, 65, 127, 128, 129, 255, 256, 257, 1000]
LADDER = ([b"".join(b'# "\r\n' for _ in range(k)) + b"keep;\r\n" for k in LADDER_K]
          + [b"".join(b"# \\\r\n" for _ in range(k)) + b"keep;\r\n" for k in LADDER_K]
          + [b"if header :is " + b" ".join((b'"a\\\\b"' if i % 2 else b'"x"') for i in range(k)) + b" { keep; }\r\n" for k in LADDER_K]
          + [b"#" + b"a" * k + b"\r\nkeep;\r\n" for k in LADDER_K])
VERBS = ["LISTSCRIPTS", "GETSCRIPT", "PUTSCRIPT", "SETACTIVE", "DELETESCRIPT"]
ACTIONS = ["NO", "BYE", "SILENCE", "EOF", "DROP-REPLY", "NO-BARE"]  # DROP-REPLY: executed by the server, the reply never arrives


def norm(b):
    lines = b.replace(b"\r\n", b"\n").replace(b"\r", b"\n").split(b"\n")
    while lines and lines[-1] == b"":
        lines.pop()
    return lines


def initial_states():
    out = []
    for old, new, other in itertools.product(("absent", "present", "active"), repeat=3):
        if [old, new, other].count("active") > 1:
            continue
        out.append((old, new, other))
    return out


NAMESETS = [
    {"old": "old", "new": "new", "other": "other"},
    # the target is given decomposed (NFD) while a bystander is named with the composed (NFC) form: different octets, different scripts
    {"old": "r\u00e8gles", "new": "cafe\u0301", "other": "caf\u00e9"},
    {"old": "old", "new": "New", "other": "new"},
]


def build(state, body, names=NAMESETS[0]):
    old, new, other = state
    store = {}
    active = None
    # insertion order varied by state so that listing order differs
    if other != "absent":
        store[names["other"]] = b"discard;\r\n"
    if old != "absent":
        store[names["old"]] = body
    if new != "absent":
        store[names["new"]] = b"redirect \"x\";\r\n"
    for n, st in (("old", old), ("new", new), ("other", other)):
        if st == "active":
            active = names[n]
    return store, active


def judge(before, active_before, srv, o, names=NAMESETS[0]):
    inv = {v: k for k, v in names.items()}
    before = {inv.get(k, k): v for k, v in before.items()}
    after = {inv.get(k, k): v for k, v in srv.store.items()}
    active_before = inv.get(active_before, active_before)
    active_after = inv.get(srv.active, srv.active)
    if o.kind == "ret":
        if o.value not in (True, False):
            return ("outcome", "returned %r (only True / False / Error are allowed)" % (o.value,))
    elif o.kind == "exc":
        if o.exc_type != "Error":
            return ("outcome:exception:%s" % o.exc_type, "raised %s: %s" % (o.exc_type, o.exc_msg))
    else:
        return ("outcome:%s" % o.kind, "does not terminate: %s" % o.exc_msg)
    # every pre-existing script still exists with its content, under its own name (old: or under 'new')
    for name, content in before.items():
        if name == "old":
            ok = (name in after and norm(after[name]) == norm(content)) or \
                 ("new" in after and "new" not in before and norm(after["new"]) == norm(content))
            if not ok:
                return ("lost-old", "script 'old' is gone: store now %r" % sorted(after))
        else:
            if name not in after:
                return ("lost:" + name, "script %r no longer exists" % name)
            if after[name] != content:
                return ("overwritten:" + name, "script %r was modified: %r -> %r" % (name, content, after[name]))
    for name in after:
        if name not in before and name != "new":
            return ("stray", "unexpected script %r created" % name)
    if active_before in ("new", "other") and active_after != active_before:
        return ("active-moved", "active script was %r, now %r" % (active_before, active_after))
    if o.kind == "ret" and o.value is True:
        if "old" in after:
            return ("true-but-old-remains", "returned True but 'old' still exists")
        if "new" not in after or "old" not in before or norm(after["new"]) != norm(before["old"]):
            return ("true-but-new-wrong", "returned True but 'new' does not hold the old content")
        if (active_before == "old") != (active_after == "new"):
            return ("true-but-active-wrong", "returned True, active before %r, after %r" % (active_before, active_after))
    return None


# how the server words its completions (RefServer._text_choice): quoted | code + literal | code + two-line literal with a status look-alike
STATUS_FORMS = [0, 3, 4, 1]
CUT_SPAN = {"quick": 170, "thorough": 400}


def run_case(state, body_i, faults, ns_i=0, form=0, cut=None, lit=0, wfault=None, probe=False, prelude=False):
    names = NAMESETS[ns_i]
    store, active = build(state, (BODIES + LADDER)[body_i], names)
    ch = refms.FixedChoices({"list-name-literal": lit, "getscript-quoted": 0}) if lit else None
    srv = refms.RefServer(ch=ch, store=store, active=active, version=False, faults=[(v, 0, a) for v, a in faults])
    srv.status_form = form
    before = dict(srv.store)
    s = wire.open_session(srv)
    if prelude:
        # earlier in the session the client listed the scripts (one of them active), then the user switched filtering off: what the
        # client remembers from that listing must not decide which script the rename activates
        s.call("listscripts")
        s.call("setactive", "")
        active = None
        before = dict(srv.store)
    if probe:
        # the caller first asks whether the names exist (refused with NONEXISTENT for absent ones): what an earlier reply left in the
        # client must not colour the rename
        s.call("getscript", names["new"])
        s.call("getscript", "no-such-script")
        before = dict(srv.store)
    if wfault is not None:
        # the j-th write of the emulation fails after k octets (timeout); only the store-level clauses are judged for these
        import socket as _socket
        j, k = wfault
        s.cur_socket().write_fault = (k, lambda: _socket.timeout("timed out"), j)
    if cut is not None:
        # one recv() boundary somewhere in the replies of the emulation's steps (offsets count from the first reply byte)
        s.cur_socket().set_seg(("cuts", [cut]) if cut > 0 else ("cap", -cut))
    o = s.call("renamescript", names["old"], names["new"])
    bad = judge(before, active, srv, o, names)
    if wfault is not None and bad and bad[0].startswith("outcome"):
        bad = None  # how a failing send surfaces is not what C14 states; what it leaves on the server is
    return bad, o, srv


def task(t):
    states, tier = t
    viols = []
    n = 0
    distinct = set()
    sample = None
    fault_sets = [()] + [((v, a),) for v in VERBS for a in ACTIONS]
    pool_ = [(v, a) for v in VERBS for a in (("NO", "BYE", "EOF", "DROP-REPLY", "NO-BARE") if tier == "quick" else ACTIONS)]
    fault_sets += [(x, y) for x, y in itertools.combinations(pool_, 2) if x[0] != y[0]]
    if tier == "thorough":
        small = [(v, a) for v in VERBS for a in ("NO", "EOF")]
        fault_sets += [t for t in itertools.combinations(small, 3) if len({x[0] for x in t}) == 3]
    for state in states:
        for bi in range(len(BODIES)):
            for faults in fault_sets:
              for ns_i, form in ([(i, 0) for i in range(len(NAMESETS))] + [(0, f) for f in STATUS_FORMS[1:]] if len(faults) <= 1 else [(0, 0)]):
                bad, o, srv = run_case(state, bi, faults, ns_i, form)
                n += 1
                distinct.add((state, faults, o.key(with_err=False), tuple(sorted(srv.store)), srv.active))
                if bad:
                    viols.append({"property": "C14", "engine": "wire",
                                  "signature": ["C14", "old=%s new=%s other=%s" % state + ("/names%d" % ns_i if ns_i else "") + ("/form%d" % form if form else ""), "+".join("%s@%s" % (a, v) for v, a in faults) or "no-fault", bad[0]],
                                  "what": "emulated rename old->new from state old=%s new=%s other=%s, faults %r: %s (outcome %s)" % (state + (faults, bad[1], o.brief())),
                                  "case": {"state": list(state), "body_i": bi, "faults": [list(f) for f in faults], "ns_i": ns_i, "form": form},
                                  "witness": "state old=%s new=%s other=%s faults=%r body=%r" % (state + (faults, BODIES[bi])), "observed": o.brief()})
                elif sample is None and faults and o.kind == "ret":
                    sample = {"state": "old=%s new=%s other=%s" % state, "faults": repr(faults), "outcome": o.brief(), "store_after": sorted(srv.store)}
        # after an earlier listing and a deactivation on the same client (only states that had an active script differ from the plain run)
        if "active" in state:
            # (faults only on verbs the prelude itself does not send: fault placement counts occurrences per verb)
            for faults in [()] + [((v, a),) for v in ("GETSCRIPT", "PUTSCRIPT", "DELETESCRIPT") for a in ("NO", "EOF")]:
                bad, o, srv = run_case(state, 0, faults, 0, 0, None, 0, None, False, True)
                n += 1
                if bad:
                    viols.append({"property": "C14", "engine": "wire",
                                  "signature": ["C14", "old=%s new=%s other=%s" % state + "/after-listing+deactivation", "+".join("%s@%s" % (a, v) for v, a in faults) or "no-fault", bad[0]],
                                  "what": "listscripts, setactive(''), then emulated rename old->new from state old=%s new=%s other=%s, faults %r: %s (outcome %s)" % (state + (faults, bad[1], o.brief())),
                                  "case": {"state": list(state), "body_i": 0, "faults": [list(f) for f in faults], "ns_i": 0, "prelude": True},
                                  "witness": "listing, deactivation, then state old=%s new=%s other=%s faults=%r" % (state + (faults,)), "observed": o.brief()})
        # the same single faults after refused probes on the same client
        for faults in [()] + [((v, a),) for v in VERBS for a in ("NO", "NO-BARE", "DROP-REPLY")]:
            bad, o, srv = run_case(state, 0, faults, 0, 0, None, 0, None, True)
            n += 1
            if bad:
                viols.append({"property": "C14", "engine": "wire",
                              "signature": ["C14", "old=%s new=%s other=%s" % state + "/after-probes", "+".join("%s@%s" % (a, v) for v, a in faults) or "no-fault", bad[0]],
                              "what": "after two getscript probes, emulated rename old->new from state old=%s new=%s other=%s, faults %r: %s (outcome %s)" % (state + (faults, bad[1], o.brief())),
                              "case": {"state": list(state), "body_i": 0, "faults": [list(f) for f in faults], "ns_i": 0, "probe": True},
                              "witness": "probes, then state old=%s new=%s other=%s faults=%r" % (state + (faults,)), "observed": o.brief()})
        # a send that fails after k octets, at each of the (up to) five writes of the emulation
        for j in range(5):
            for k in (0, 1, 9, 20, 40):
                bad, o, srv = run_case(state, 0, (), 0, 0, None, 0, (j, k))
                n += 1
                if bad:
                    viols.append({"property": "C14", "engine": "wire",
                                  "signature": ["C14", "old=%s new=%s other=%s" % state, "send-fails@write%d" % j, bad[0]],
                                  "what": "emulated rename old->new from state old=%s new=%s other=%s, write %d fails after %d octets: %s (outcome %s)" % (state + (j, k, bad[1], o.brief())),
                                  "case": {"state": list(state), "body_i": 0, "faults": [], "ns_i": 0, "wfault": [j, k]},
                                  "witness": "state old=%s new=%s other=%s write-fault=%r" % (state + ((j, k),)), "observed": o.brief()})
        # segmentation inside the emulation: every single cut in the first CUT_SPAN reply bytes and small recv caps, names sent quoted / as literals
        for lit in (0, 1):
            for cut in list(range(1, CUT_SPAN[tier] + 1)) + [-1, -2, -3, -7]:
                bad, o, srv = run_case(state, 0, (), 0, 0, cut, lit)
                n += 1
                if bad:
                    viols.append({"property": "C14", "engine": "wire",
                                  "signature": ["C14", "old=%s new=%s other=%s" % state + ("/literal-names" if lit else ""), "segmented", bad[0]],
                                  "what": "emulated rename old->new from state old=%s new=%s other=%s, replies cut at %r: %s (outcome %s)" % (state + (cut, bad[1], o.brief())),
                                  "case": {"state": list(state), "body_i": 0, "faults": [], "ns_i": 0, "cut": cut, "lit": lit},
                                  "witness": "state old=%s new=%s other=%s cut=%r literal-names=%d" % (state + (cut, lit)), "observed": o.brief()})
    return dict(n=n, distinct=len(distinct), violations=viols, sample=sample)


def same_name_cases():
    """renamescript(x, x): both arguments name the same script - it must still exist afterwards, untouched, whatever is reported"""
    viols = []
    n = 0
    fault_sets = [()] + [((v, a),) for v in VERBS for a in ("NO", "EOF")]
    for st in ("present", "active"):
        for other in ("absent", "present"):
            for bi in (0, 4):
                for faults in fault_sets:
                    store = {"x": BODIES[bi]}
                    if other == "present":
                        store["other"] = b"discard;\r\n"
                    srv = refms.RefServer(store=dict(store), active=("x" if st == "active" else None), version=False, faults=[(v, 0, a) for v, a in faults])
                    s = wire.open_session(srv)
                    o = s.call("renamescript", "x", "x")
                    n += 1
                    bad = None
                    if o.kind in ("livelock", "hang") or (o.kind == "exc" and o.exc_type != "Error"):
                        bad = ("outcome:" + (o.exc_type or o.kind), "rename onto the same name: %s" % o.brief())
                    elif srv.store.get("x") is None or norm(srv.store["x"]) != norm(BODIES[bi]):
                        bad = ("lost-old", "renamescript('x', 'x') left the store as %r (outcome %s)" % (sorted(srv.store), o.brief()))
                    elif srv.store.get("other", b"discard;\r\n") != b"discard;\r\n" or (other == "present") != ("other" in srv.store):
                        bad = ("overwritten:other", "bystander changed")
                    elif (st == "active") != (srv.active == "x"):
                        bad = ("active-moved", "active script was %r, now %r" % ("x" if st == "active" else None, srv.active))
                    if bad:
                        viols.append({"property": "C14", "engine": "wire", "signature": ["C14", "same-name x=%s other=%s" % (st, other), "+".join("%s@%s" % (a, v) for v, a in faults) or "no-fault", bad[0]],
                                      "what": bad[1], "case": {"same_name": True}, "witness": "renamescript('x','x') x=%s other=%s faults=%r" % (st, other, faults), "observed": o.brief()})
    return n, viols


def ladder_task(t):
    lo, hi = t
    viols = []
    n = 0
    distinct = set()
    for bi in range(lo, hi):
        for state in (("present", "absent", "absent"), ("active", "absent", "present"), ("present", "present", "active")):
            for faults in [(), (("PUTSCRIPT", "NO"),), (("DELETESCRIPT", "NO"),), (("SETACTIVE", "NO"),)]:
                for lit in (0, 1):
                    bad, o, srv = run_case(state, bi, faults, 0, 0, None, lit)
                    n += 1
                    distinct.add((state, faults, o.key(with_err=False), tuple(sorted(srv.store)), srv.active))
                    if bad:
                        body = (BODIES + LADDER)[bi]
                        viols.append({"property": "C14", "engine": "wire",
                                      "signature": ["C14", "old=%s new=%s other=%s/ladder" % state, "+".join("%s@%s" % (a, v) for v, a in faults) or "no-fault", bad[0]],
                                      "what": "emulated rename of a %d-octet body with %d double quotes and %d backslashes from state old=%s new=%s other=%s, faults %r: %s (outcome %s)" % (
                                          (len(body), body.count(b'"'), body.count(b"\\")) + state + (faults, bad[1], o.brief())),
                                      "case": {"state": list(state), "body_i": bi, "faults": [list(f) for f in faults], "ns_i": 0, "form": 0, "lit": lit},
                                      "witness": "state old=%s new=%s other=%s faults=%r body=%r..." % (state + (faults, body[:40])), "observed": o.brief()})
    return dict(n=n, distinct=len(distinct), violations=viols, sample=None)


def run(tier, seed):
    states = initial_states()
    tasks = [([st], tier) for st in states]
    res = pool.run_tasks("checks.c14:task", tasks)
    nb = len(BODIES)
    res += pool.run_tasks("checks.c14:ladder_task", [(nb + i, min(nb + i + 6, nb + len(LADDER))) for i in range(0, len(LADDER), 6)])
    # control: with VERSION exactly one RENAMESCRIPT is sent
    viols = []
    srv = refms.RefServer(store={"old": b"keep;\r\n"}, active="old", version=True)
    s = wire.open_session(srv)
    m = wire.mark(s)
    o = s.call("renamescript", "old", "new")
    verbs = [v for v, _a in srv.log[m[2]:]]
    if verbs != ["RENAMESCRIPT"] or o.value is not True:
        viols.append({"property": "C14", "engine": "wire", "signature": ["C14", "native", "VERSION announced", "not-native"],
                      "what": "with VERSION the client sent %r (outcome %s)" % (verbs, o.brief()), "case": {"native": True}, "witness": "native rename", "observed": o.brief()})
    n = sum(r["n"] for r in res) + 1
    for r in res:
        viols.extend(r["violations"])
    n2, v2 = same_name_cases()
    n += n2
    viols.extend(v2)
    cov = dict(states=len(states) * len(BODIES), transitions=n, traces_validated_against_impl=n, evaluations=n, distinct_nontrivial=sum(r["distinct"] for r in res),
               rule="E3: %d initial stores (old/new/other x absent/present/active, at most one active) x %d bodies x fault placements (none; each of "
                    "%r x %r, each also under 3 name sets and 4 wordings of the server's completions (quoted, literal, response code + literal, two-line "
                    "literal with a status look-alike); every pair on distinct verbs; thorough: also triples) against the reference server without VERSION; oracle on the server's store "
                    "before/after" % (len(states), len(BODIES), VERBS, ACTIONS),
               samples=[r["sample"] for r in res if r["sample"]][:5] or [{"note": "none"}], exhaustive=True)
    return dict(violations=viols, coverage=cov, harness_errors=[], assumptions=["reference server semantics per RFC 5804 section 2 (DESIGN.md Appendix B)"])


def replay(payload):
    c = payload["case"]
    if c.get("native"):
        return []
    if c.get("same_name"):
        return [v for v in same_name_cases()[1] if v["signature"] == payload["signature"]]
    bad, o, srv = run_case(tuple(c["state"]), c["body_i"], tuple(tuple(f) for f in c["faults"]), c.get("ns_i", 0), c.get("form", 0), c.get("cut"), c.get("lit", 0), tuple(c["wfault"]) if c.get("wfault") else None, bool(c.get("probe")), bool(c.get("prelude")))
    if bad:
        sig = list(payload["signature"])
        sig[3] = bad[0]
        return [{"property": "C14", "signature": sig, "what": bad[1], "witness": payload.get("witness"), "observed": o.brief()}]
    return []
