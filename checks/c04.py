"""C04 — print/parse round trip: BFS states + exhaustive value products (E3)."""
import itertools

from mc import pool, words, parser_engine as E
from . import parser_common as PC

# e + U+0301 and U+212B: text that Unicode normalisation would rewrite (values are octets; bytes and str input must agree)
CHARS = ["a", '"', "\\", ",", "[", "]", " ", "\n", "é", "#", ";", "\r", "\u2028", "e\u0301", "\u212b"]
REQ = 'require ["fileinto","reject","vacation","variables","imap4flags","envelope"];\n'
SLOTS = [
    ("single", 'redirect %s;'),
    ("only-item", 'if header [%s] "k" { keep; }'),
    ("first-item", 'if header [%s, "x"] "k" { keep; }'),
    ("last-item", 'if header "h" ["x", %s] { keep; }'),
    ("tag-param", 'vacation :subject %s "r";'),
    ("list-tag-param", 'vacation :addresses [%s, "b"] "r";'),
    ("list-tag-param-only", 'keep :flags [%s];'),
    ("nested", 'if true { if true { fileinto %s; } }'),
]
# the last four: characters that str.splitlines() / \s treat as line ends or blanks but Sieve does not, directly before a "."
ML_LINES = ["abc", "..x", "", '"q"', "[a]", "é", ". ", "text:", "p\x0c.", "q\u2028.", "r\r.", "\x85"]
ML_SLOTS = [
    ("top-last", "reject %s\n;"),
    ("top-nonlast", 'set %s\n"b";'),
    ("block1", "if true { reject %s\n; }"),
    ("block2", "if true { if true { vacation :subject \"s\" %s\n; } else { keep; } }"),
    ("tag-param", 'vacation :subject %s\n"r";'),
    # a multi-line literal as a member of a bracketed list: outside RFC 5228's string-list grammar as implemented; if a tree accepts it,
    # it must round-trip like everything else it accepts
    ("list-member", 'if header ["a", %s\n] "k" { keep; }'),
    ("list-only-member", 'keep :flags [%s\n];'),
]


def quote(content):
    return '"' + content.replace("\\", "\\\\").replace('"', '\\"') + '"'


def value_cases(maxlen):
    for n in range(0, maxlen + 1):
        for tup in itertools.product(CHARS, repeat=n):
            yield "".join(tup)


def ladder_cases(top):
    """long values (every length 2^k - 1, 2^k, 2^k + 1) and long lists (n members, n <= 40) built from text that contains the
    separators a serialiser might reflow: ', ' / ',' / blank / newline / quote / backslash"""
    unit = 'ab, c"d\\e,f\ng '
    for k in range(3, top + 1):
        for L in (2 ** k - 1, 2 ** k, 2 ** k + 1):
            yield quote((unit * (L // len(unit) + 1))[:L])
    for dup in (('"a"', '"a"'), ('"a"', '"b"', '"a"'), ('"a"', '"a"', '"b"'), ('""', '""'), ('"x, y"', '"z"', '"x, y"')):
        yield ", ".join(dup)  # members equal to one another (the last one repeating an earlier one)
    # member counts around every power of two (255, 256, 257, 258, ... 1025): thresholds of counters and caches
    for k in range(6, 11):
        for n in (2 ** k - 1, 2 ** k, 2 ** k + 1, 2 ** k + 2):
            yield ", ".join(quote("u%d@example.org" % i) for i in range(n))
    for n in range(2, 41):
        yield ", ".join(quote("m%d, x" % i) for i in range(n))
        yield ",".join(quote("Doe, John <j%d@example.org>" % i) for i in range(n))


ML_EXTRA = [
    # lines that only LOOK like the terminator (dot + blanks, dot + CR), followed by text that would be valid Sieve on its own
    "text:\nfirst\n. \n;\nstop;\nreject text:\nbye\n.",
    "text:\nfirst\n.\t\n;\nkeep;\nredirect text:\nbye\n.",
    "text:\r\nfirst\r\n. \r\n;\r\nstop;\r\nreject text:\r\nbye\r\n.",
    "TEXT:\n.x\n. .\n;\nstop;\nreject text:\nbye\n.",
]


def ml_cases(maxlines):
    for m in ML_EXTRA:
        yield m
    for n in range(0, maxlines + 1):
        for tup in itertools.product(ML_LINES, repeat=n):
            for eol in ("\n", "\r\n"):
                yield "text:" + eol + "".join(l + eol for l in tup) + "."
        if n <= 1:
            for tup in itertools.product(ML_LINES, repeat=n):
                yield "TEXT:\n" + "".join(l + "\n" for l in tup) + "."  # the keyword is an ABNF literal: any letter case


def e3_task(t):
    kind, slot_i, maxn = t[:3]
    c03 = len(t) > 3 and t[3] == "c03"  # the same value products under C03's tree oracle (token conservation, generic tree)
    viols = []
    n = 0
    acc = 0
    distinct = set()
    sample = None
    if kind == "ladder":
        name, tmpl = SLOTS[slot_i]
        gen = ladder_cases(maxn)
    elif kind == "str":
        name, tmpl = SLOTS[slot_i]
        gen = (quote(v) for v in value_cases(maxn))
    else:
        name, tmpl = ML_SLOTS[slot_i]
        gen = ml_cases(maxn)
    for spelled in gen:
        text = (REQ + tmpl % spelled).encode("utf-8")
        n += 1
        case = E.execute((), text=text, want_config=False)
        if c03:
            acc += case.obs.verdict == "ACC"
            viols.extend(E.oracle_c03(case))
            continue
        if case.obs.verdict == "ACC":
            acc += 1
            distinct.add(spelled)
            if sample is None and len(spelled) > 6:
                sample = {"slot": name, "text": text.decode("utf-8")}
        elif case.v.kind == "VALID":
            # C01's business, but a value that cannot even be parsed cannot round-trip either: report under C04
            viols.append(E.viol("C04", "value-rejected", case, "ROUNDTRIP", name, None, None,
                                "well-formed value %r rejected: %s" % (spelled, case.obs.brief())))
            continue
        r = E.roundtrip(text) if case.obs.verdict == "ACC" else None
        if r is not None:
            direction, detail, what = r
            viols.append(E.viol("C04", direction, case, "ROUNDTRIP", name, _cls(spelled), None, what))
    return dict(n=n, acc=acc, distinct=len(distinct), sample=sample, violations=viols, slot=name)


def _cls(spelled):
    """character class of a value for signatures"""
    cl = []
    if spelled[:5].lower() == "text:":
        cl.append("ml")
        if "\r\n" in spelled:
            cl.append("crlf")
        return "+".join(cl)
    body = spelled[1:-1]
    if body.endswith('\\"'):
        cl.append("ends-escaped-quote")
    elif '\\"' in body:
        cl.append("escaped-quote")
    if body.endswith("\\\\"):
        cl.append("ends-backslash")
    elif "\\\\" in body:
        cl.append("backslash")
    if "\n" in body:
        cl.append("lf")
    if "," in body:
        cl.append("comma")
    if "[" in body or "]" in body:
        cl.append("bracket")
    return "+".join(cl) or "plain"


def run(tier, seed):
    tasks = PC.make_tasks(tier, seed, [], post="c04", include_noreq=False)
    results = pool.run_tasks("checks.parser_common:task", tasks)
    results += pool.run_tasks("checks.parser_common:valid_task", PC.valid_tasks(tier, seed, [], post="c04", with_edits=False, layouts=["upper"]))
    cov, viols, harness = PC.assemble(results)
    maxlen = 3 if tier == "quick" else 4
    maxlines = 2 if tier == "quick" else 3
    e3 = [("str", i, maxlen) for i in range(len(SLOTS))] + [("ml", i, maxlines) for i in range(len(ML_SLOTS))]
    e3 += [("ladder", i, 10 if tier == "quick" else 16) for i in range(len(SLOTS))]
    r3 = pool.run_tasks("checks.c04:e3_task", e3)
    n3 = sum(r["n"] for r in r3)
    for r in r3:
        viols.extend(r["violations"])
        if r["sample"]:
            cov["samples"].append(r["sample"])
    cov["traces_validated_against_impl"] += 3 * n3
    cov["evaluations"] += 3 * n3
    cov["transitions"] += n3
    cov["states"] += sum(r["acc"] for r in r3)
    cov["distinct_nontrivial"] += sum(r["distinct"] for r in r3)
    cov["value_product"] = dict(chars=CHARS, max_len=maxlen, slots=[s[0] for s in SLOTS], cases=n3, ml_lines=ML_LINES,
                                ml_max_lines=maxlines, ml_slots=[s[0] for s in ML_SLOTS],
                                accepted=sum(r["acc"] for r in r3), exhaustive=True)
    cov["rule"] += (" C04: every accepted BFS word is serialised, re-parsed (tree equality) and re-serialised (fixed point); E3: every "
                    "string of length <= max_len over the quoting alphabet in every slot kind, every multi-line body of <= ml_max_lines lines.")
    return dict(violations=viols, coverage=cov, harness_errors=harness, assumptions=PC.ASSUMPTIONS)


def replay(payload):
    text = bytes.fromhex(payload["text_hex"])
    case = E.execute((), text=text, want_config=False)
    if case.obs.verdict != "ACC":
        if payload["signature"][1] == "value-rejected":
            return [E.viol("C04", "value-rejected", case, "ROUNDTRIP", payload["signature"][3], None, None, "still rejected")]
        return []
    r = E.roundtrip(text)
    if r is None:
        return []
    sig = payload["signature"]
    return [E.viol("C04", r[0], case, "ROUNDTRIP", sig[3], sig[4], None, r[2])]
