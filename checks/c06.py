"""C06 — Every script the filter factory generates is valid and self-sufficient.

E3: (condition kind | action kind) x value over a hostile alphabet for single-filter sets; E1: histories of
add/update/replace/disable/enable/move/remove with a rich definition pool (require line must cover everything)."""
import itertools

from mc import pool, seams, factory_engine as F
from . import c12

CHARS = ["a", '"', "\\", ",", "[", "]", "\n", "é", " ", ";", "{", "#"]
# (probes below: full-width quotation mark / reverse solidus and SMALL REVERSE SOLIDUS - compatibility characters that a normalisation
# applied after escaping would turn into the ASCII delimiters)
PROBES = ['a"; discard; #', "a\\", 'x" , "y', "a]", "${x}", "a\r\nb",
          # values that look like already-encoded Sieve syntax: multi-line literals (complete, with an inner terminator, with an injected
          # tail, with a separator only str.splitlines() knows), tags, numbers, a bracket comment
          "text:\na\n.", "text:\na\n.\nb\n.", "text:\nBack\n.\n;\ndiscard;\nstop;\nreject text:\nbye\n.", "text:\u2028.", "text:\n.",
          'text:\nsay "hi"\n.', ":copy", ":is", "10", "1K", "/* x */", "true",
          'Bob <"weird local"@example.com>', "x <'tis@example.com>", "spam\uff02, \uff02eggs", "Archive\uff3c", "a\ufe68", "x\uff02; discard; #", "cafe\u0301"]
BENIGN = "BENIGNVALUE"


def ladder(top):
    """long values: every length 2^k - 1, 2^k, 2^k + 1 up to 2^top, made of characters that need escaping"""
    unit = 'a"\\, ]é\n'
    out = []
    for k in range(5, top + 1):
        for L in (2 ** k - 1, 2 ** k, 2 ** k + 1):
            out.append((unit * (L // len(unit) + 1))[:L])
    return out


def values(maxlen):
    out = []
    for n in range(0, maxlen + 1):
        for tup in itertools.product(CHARS, repeat=n):
            v = "".join(tup)
            if v.startswith(('"', "'")):
                continue  # taken by the factory as already quoted: outside the claim
            out.append(v)
    return out + PROBES + ladder(10 if maxlen <= 3 else 14)


def _fileinto_variants():
    tags = [(":copy",), (":create",), (":flags", "\\Seen")]
    out = []
    for k in range(0, 4):
        for combo in itertools.permutations(tags, k):
            flat = tuple(x for t in combo for x in t)
            out.append(("fileinto[%s]" % "".join(t[0] for t in combo), lambda V, flat=flat: ("fileinto",) + flat + (V,)))
    out.append(("fileinto[:flags-list]", lambda V: ("fileinto", ":flags", ["\\Seen", V], "box")))
    out.append(("fileinto[:flags-value]", lambda V: ("fileinto", ":flags", V, "box")))
    return out


VAC_TAGS = [(":subject", "S"), (":days", 3), (":seconds", 10), (":from", "a@b"), (":addresses", ["x@y", "z@y"]), (":handle", "h"), (":mime",)]


def _vacation_variants():
    out = []
    n = len(VAC_TAGS)
    for mask in range(2 ** n):
        tags = [VAC_TAGS[i] for i in range(n) if mask & (1 << i)]
        if any(t[0] == ":days" for t in tags) and any(t[0] == ":seconds" for t in tags) and mask not in (6, 127):
            continue
        flat = tuple(x for t in tags for x in t)
        out.append(("vacation[%s]" % ",".join(t[0] for t in tags), lambda V, flat=flat: ("vacation",) + flat + (V,)))
    # one permuted order, and value holes in the tag parameters
    out.append(("vacation[permuted]", lambda V: ("vacation", ":mime", ":handle", "h", ":subject", "S", V)))
    # numeric boundary values (0 is legal for :seconds, RFC 6131) (action numbers are ints in the factory's API)
    out.append(("vacation[:days=0]", lambda V: ("vacation", ":days", 0, V)))
    out.append(("vacation[:seconds=0]", lambda V: ("vacation", ":subject", "S", ":seconds", 0, V)))
    out.append(("vacation[subject-hole]", lambda V: ("vacation", ":subject", V, "reason")))
    out.append(("vacation[from-hole]", lambda V: ("vacation", ":from", V, "reason")))
    out.append(("vacation[handle-hole]", lambda V: ("vacation", ":handle", V, "reason")))
    out.append(("vacation[addresses-hole]", lambda V: ("vacation", ":addresses", [V, "b@c"], "reason")))
    return out


COND_KINDS = [
    ("header:is", lambda V: ("Subject", ":is", V)),
    ("header:contains", lambda V: ("Subject", ":contains", V)),
    ("header:matches", lambda V: ("Subject", ":matches", V)),
    ("header:notis", lambda V: ("Subject", ":notis", V)),
    ("header:notcontains", lambda V: ("Subject", ":notcontains", V)),
    ("header:notmatches", lambda V: ("Subject", ":notmatches", V)),
    ("header-name-hole", lambda V: (V, ":is", "x")),
    ("header-lists", lambda V: (["To", V], ":contains", [V, "y"])),
    ("exists1", lambda V: ("exists", V)),
    ("exists2", lambda V: ("exists", V, "h2")),
    ("notexists", lambda V: ("notexists", "h1", V)),
    ("size:over", lambda V: ("size", ":over", "100k")),
    ("size:under-int", lambda V: ("size", ":under", 5)),
    ("envelope:is", lambda V: ("envelope", ":is", ["From"], [V])),
    ("envelope:notis", lambda V: ("envelope", ":notis", ["From", "To"], [V, "k"])),
    ("envelope-part-hole", lambda V: ("envelope", ":contains", [V], ["k"])),
    ("address-str", lambda V: ("address", ":is", "From", V)),
    ("address-lists", lambda V: ("address", ":contains", ["From", "To"], [V, "k"])),
    ("address:not", lambda V: ("address", ":notis", "From", V)),
    ("body:raw", lambda V: ("body", ":raw", ":contains", V)),
    ("body:text-not", lambda V: ("body", ":text", ":notcontains", V, "y")),
    ("currentdate:is", lambda V: ("currentdate", ":zone", "+0100", ":is", "date", V)),
    ("currentdate:value", lambda V: ("currentdate", ":zone", "+0100", ":value", "ge", "date", V)),
    ("currentdate:notis", lambda V: ("currentdate", ":zone", "+0100", ":notis", "date", V, "k2")),
    ("currentdate-zone-hole", lambda V: ("currentdate", ":zone", V, ":is", "date", "2019-02-26")),
    ("header:regex", lambda V: ("Subject", ":regex", V)),
    ("header:notregex", lambda V: ("Subject", ":notregex", V)),
    ("envelope:regex", lambda V: ("envelope", ":regex", ["From"], [V])),
    ("address:regex", lambda V: ("address", ":regex", "From", V)),
    ("body:regex", lambda V: ("body", ":raw", ":regex", V)),
    ("currentdate:regex", lambda V: ("currentdate", ":zone", "+0100", ":regex", "date", V)),
    ("true", lambda V: ("true",)),
    ("false", lambda V: ("false",)),
]
ACTION_KINDS = _fileinto_variants() + [
    ("redirect", lambda V: ("redirect", V)),
    ("redirect:copy", lambda V: ("redirect", ":copy", V)),
    ("reject", lambda V: ("reject", V)),
    ("keep", lambda V: ("keep",)),
    ("keep:flags", lambda V: ("keep", ":flags", V)),
    ("discard", lambda V: ("discard",)),
    ("stop", lambda V: ("stop",)),
    ("setflag", lambda V: ("setflag", V)),
    ("setflag-list", lambda V: ("setflag", [V, "\\Flagged"])),
    ("addflag-var", lambda V: ("addflag", "myvar", V)),
    ("removeflag-list", lambda V: ("removeflag", ["a", V])),
] + _vacation_variants()

# kinds whose hole is not exercised (no user string): one value is enough
NO_HOLE = {"size:over", "size:under-int", "true", "false", "keep", "discard", "stop"}


def build(ns, kind_i, is_action, V, two=False):
    fs = F.new_set(ns)
    if is_action:
        name, mk = ACTION_KINDS[kind_i]
        conds = [("Subject", ":is", "hello")]
        acts = [mk(V)]
    else:
        name, mk = COND_KINDS[kind_i]
        conds = [mk(V)]
        if two == "dup2":
            conds.append(mk(V))  # the same condition twice
        elif two:
            conds.append(("X-Other", ":contains", "z"))
            if two == "dup":
                conds.append(mk(V))  # ... and a last condition equal to the first
        acts = [("keep",)]
    fs.addfilter("f", conds, acts, "allof" if two else "anyof")
    return fs


def judge_script(ns, text):
    """(1) implementation accepts, (2) reference strict VALID, (3) begins with a require covering every used extension.
    -> (None | (clause, text), reference verdict)"""
    p = ns.parser.Parser()
    ok = p.parse(text)
    if ok is not True:
        return ("parser-rejects", "generated script rejected by the parser: %s" % getattr(p, "error", None)), None
    v, toks, comments = F.ref_parse(text)
    if v.kind != "VALID":
        return ("not-strictly-valid", "generated script is not strictly valid: %r" % (v,)), v
    if v.uses:
        first = v.tree[0]
        if first[0] != "require":
            return ("no-leading-require", "extensions %r used but the script does not begin with require" % sorted({u[0] for u in v.uses})), v
        names = set()
        for val in first[2]:
            items = val[1] if val[0] == "sl" else (val[1],)
            names.update(i.strip('"') for i in items)
        missing = sorted({u[0] for u in v.uses} - names)
        if missing:
            return ("require-incomplete", "leading require lacks %r" % missing), v
    return None, v


def value_class(V):
    cl = []
    if '"' in V:
        cl.append("quote")
    if "\\" in V:
        cl.append("backslash")
    if "\n" in V or "\r" in V:
        cl.append("newline")
    if "," in V:
        cl.append("comma")
    if "[" in V or "]" in V:
        cl.append("bracket")
    if any(ord(c) > 127 for c in V):
        cl.append("non-ascii")
    if V == "":
        cl.append("empty")
    return "+".join(cl) or "plain"


def kind_task(t):
    kind_i, is_action, maxlen = t
    ns = seams.load()
    name = (ACTION_KINDS if is_action else COND_KINDS)[kind_i][0]
    vals = values(maxlen) if name not in NO_HOLE else ["x"]
    # the description language itself gives a meaning to a leading colon among action arguments (a tag) and to a keyword in the first
    # position of a condition (true/false/exists/...): such a value is a different description, not a hostile value of this one
    if is_action:
        vals = [v for v in vals if not v.startswith(":")]
    elif name == "header-name-hole":
        vals = [v for v in vals if v != "true"]
    viols = []
    n = 0
    distinct = set()
    sample = None
    # benign rendering = reference structure
    try:
        benign_fs = build(ns, kind_i, is_action, BENIGN)
        btext = F.render(benign_fs)
        bv, _t, _c = F.ref_parse(btext)
        bshape, bstrings = F.tree_shape(bv.tree) if bv.tree is not None else (None, None)
    except Exception as e:  # noqa
        bshape = bstrings = None
        btext = "%s: %s" % (type(e).__name__, e)
    for V in vals:
        for two in ((False, True, "dup", "dup2") if not is_action and V in ("a", 'a"; discard; #') else (False,)):
            n += 1
            bad = None
            text = None
            try:
                fs = build(ns, kind_i, is_action, V, two)
                text = F.render(fs)
            except Exception as e:  # noqa
                bad = ("exception:%s" % type(e).__name__, "building/rendering raised %s: %s" % (type(e).__name__, str(e)[:100]))
            if bad is None:
                bad, v = judge_script(ns, text)
            if bad is None:
                # reading a filter back is an observation: the rendering afterwards must be the same text
                try:
                    fs.get_filter_conditions("f"), fs.get_filter_actions("f"), fs.get_filter_matchtype("f"), fs.getfilter("f")
                    text2 = F.render(fs)
                except Exception as e:  # noqa
                    text2 = "%s: %s" % (type(e).__name__, e)
                if text2 != text:
                    bad = ("changed-by-read-back", "after get_filter_conditions/actions/matchtype the set renders differently: %r" % text2[:160])
            if bad is None and not two and bshape is not None:
                shape, strings = F.tree_shape(v.tree)
                if shape != bshape:
                    bad = ("structure-changed", "the value changes the script's structure")
                else:
                    for s, b in zip(strings, bstrings):
                        want = V if F.decode_string(b) == BENIGN else F.decode_string(b)
                        if F.decode_string(s) != want:
                            bad = ("value-corrupted", "string literal %r decodes to %r, expected %r" % (s, F.decode_string(s), want))
                            break
            distinct.add((value_class(V), bad[0] if bad else None))
            if bad:
                viols.append({"property": "C06", "engine": "factory", "signature": ["C06", name, value_class(V), bad[0]],
                              "what": "%s with value %r: %s" % (name, V, bad[1]),
                              "case": {"kind": "value", "kind_i": kind_i, "is_action": is_action, "value": V, "two": two},
                              "witness": "%s value=%r" % (name, V), "observed": (text or "")[:200]})
            elif sample is None and len(V) >= 2:
                sample = {"kind": name, "value": V, "script": text}
    return dict(n=n, distinct=len(distinct), violations=viols, sample=sample)


# ---- history part -----------------------------------------------------------------------------

RICH = ["d1", "d2", "d3", "d4", "d5", "d6", "d7", "d8", "d9"]


def hist_events():
    ev = []
    for n in ("a", "b"):
        for d in RICH:
            ev.append(("add", n, d))
        for d in RICH:
            # every definition can replace every other one: what the set requires afterwards must follow the filters it then holds
            ev.append(("update", n, n, d))
        ev.append(("update", n, "c", "d3"))
        ev.append(("replace", n, ("fresh", "d4"), None, None))
        ev.append(("remove", n))
        ev.append(("enable", n))
        ev.append(("disable", n))
        ev.append(("move", n, "down"))
    # calls that the factory refuses with an exception part-way through building the filter (unsupported tag after a supported action,
    # unknown test after an extension test): the set must afterwards render as if the call had never been made
    ev.append(("badadd", "z", [("Subject", ":is", "x")], [("fileinto", ":copy", "Ok"), ("fileinto", ":bogus", "x")]))
    ev.append(("badadd", "z", [("envelope", ":is", ["From"], ["a"]), ("nottrue",)], [("keep",)]))
    ev.append(("badupdate", "a", [("Subject", ":is", "x")], [("fileinto", ":create", "Ok"), ("redirect", ":bogus", "x")]))
    return ev


def _apply(ev, fs, model, ns):
    if ev[0] in ("badadd", "badupdate"):
        try:
            if ev[0] == "badadd":
                fs.addfilter(ev[1], list(ev[2]), list(ev[3]))
            elif model._find(ev[1]) is not None:
                fs.updatefilter(ev[1], ev[1], list(ev[2]), list(ev[3]))
            else:
                return None
        except Exception:  # noqa
            return True  # refused, as expected: the model is unchanged
        return None  # the tree accepted the definition after all: not the situation this event is about
    return c12.apply(ev, fs, model, ns)


def _label(e):
    return "%s(%s)" % (e[0], e[1]) if e[0] in ("badadd", "badupdate") else c12.ev_label(e)


def hist_task(t):
    first, depth = t
    ns = seams.load()
    evs = hist_events()
    viols = []
    n = 0
    seen = set()
    frontier = [[evs[first]]]
    d = 1
    states = 0
    while frontier and d <= depth:
        nxt = []
        for h in frontier:
            fs = F.new_set(ns)
            model = F.RefFilters()
            skip = False
            try:
                for ev in h:
                    r = _apply(ev, fs, model, ns)
                    if r is None:
                        skip = True
                        break
            except Exception as e:  # noqa
                skip = True
            if skip:
                continue
            n += 1
            try:
                text = F.render(fs)
                bad, v = judge_script(ns, text)
            except Exception as e:  # noqa
                bad, text = ("exception:%s" % type(e).__name__, "rendering raised %s" % e), ""
            if bad:
                viols.append({"property": "C06", "engine": "factory", "signature": ["C06", "history", h[-1][0] + ":" + str(h[-1][-1] if h[-1][0] == "add" else ""), bad[0]],
                              "what": "after %s: %s" % (" ; ".join(_label(e) for e in h), bad[1]),
                              "case": {"kind": "history", "history": c12._jsonable(h)},
                              "witness": " ; ".join(_label(e) for e in h), "observed": text[:200]})
                continue
            k = (model.state(), tuple(sorted(fs.requires)))
            if k not in seen:
                seen.add(k)
                states += 1
                if d < depth:
                    for ev in evs:
                        nxt.append(h + [ev])
        frontier = nxt
        d += 1
    return dict(n=n, distinct=states, violations=viols, sample=None)


def run(tier, seed):
    maxlen = 3 if tier == "quick" else 4
    tasks = [(i, False, maxlen) for i in range(len(COND_KINDS))] + [(i, True, maxlen) for i in range(len(ACTION_KINDS))]
    r1 = pool.run_tasks("checks.c06:kind_task", tasks, chunksize=2)
    hdepth = 3 if tier == "quick" else 4
    r2 = pool.run_tasks("checks.c06:hist_task", [(i, hdepth) for i in range(len(hist_events()))])
    res = r1 + r2
    n = sum(r["n"] for r in res)
    viols = []
    for r in res:
        viols.extend(r["violations"])
    cov = dict(states=len(tasks) + sum(r["distinct"] for r in r2), transitions=n, traces_validated_against_impl=n, evaluations=n,
               distinct_nontrivial=sum(r["distinct"] for r in res),
               rule="E3: %d condition kinds + %d action kinds (every subset and order of fileinto tags, every subset of vacation tags) x every string of "
                    "length <= %d over %r not starting with a quote + probes %r; oracle: parser accepts, reference strict validator accepts, leading require "
                    "covers every used extension, tree with string holes equals the tree for a benign value and every literal decodes to the supplied value. "
                    "E1: histories of %d events to depth %d over a 6-definition pool (dedup on model state + requires)" % (
                        len(COND_KINDS), len(ACTION_KINDS), maxlen, CHARS, PROBES, len(hist_events()), hdepth),
               samples=[r["sample"] for r in res if r.get("sample")][:5] or [{"note": "none"}], exhaustive=True)
    return dict(violations=viols, coverage=cov, harness_errors=[],
                assumptions=["values starting with a quote character are outside the claim (taken as already quoted)", "reference strict validator = RefSieve VALID with no irregularity"])


def replay(payload):
    ns = seams.load()
    c = payload["case"]
    if c["kind"] == "history":
        r = hist_task_single(c12._unjson(c["history"]), ns)
        return r
    r = kind_task_single(c["kind_i"], c["is_action"], c["value"], c.get("two", False))
    return r


def kind_task_single(kind_i, is_action, V, two):
    global values
    orig = values
    try:
        values = lambda maxlen: [V]  # noqa
        r = kind_task((kind_i, is_action, 0))
    finally:
        values = orig
    return [v for v in r["violations"] if v["case"]["value"] == V]


def hist_task_single(h, ns):
    fs = F.new_set(ns)
    model = F.RefFilters()
    for ev in h:
        if _apply(ev, fs, model, ns) is None:
            return []
    text = F.render(fs)
    bad, v = judge_script(ns, text)
    if bad:
        return [{"property": "C06", "signature": ["C06", "history", h[-1][0] + ":" + str(h[-1][-1] if h[-1][0] == "add" else ""), bad[0]], "what": bad[1],
                 "witness": " ; ".join(c12.ev_label(e) for e in h), "observed": text[:200]}]
    return []
