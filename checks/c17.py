"""C17 — Script names and bodies come back exactly as the server holds them.

E3: bodies = all sequences of <= 3/4 lines over the look-alike pool x final-newline x line-ending style,
name sets of <= 2/3 names over a look-alike pool x active position x EVERY per-name encoding."""
import itertools

from mc import pool, wire, refms, wire_engine as W

NAME_POOL = ["a", "OK", "NO x", "{3}", "x ACTIVE", 'a"b', "a\\b", "é", '"', "ACTIVE", "b c", "{3+}", "cafe\u0301", "\u212b", "holiday ", " old"]


def norm_lines(b):
    """line list ignoring line-ending style and trailing blank lines"""
    s = b.decode("utf-8", "replace") if isinstance(b, bytes) else b
    lines = s.replace("\r\n", "\n").replace("\r", "\n").split("\n")
    while lines and lines[-1] == "":
        lines.pop()
    return lines


def body_task(t):
    lo, hi, maxlines = t
    allb = W.bodies(maxlines)
    viols = []
    n = 0
    distinct = set()
    sample = None
    for body in allb[lo:hi]:
        for quoted in (0, 1):
            if quoted and not refms.can_quote(body):
                continue
            srv = refms.RefServer(ch=refms.FixedChoices({"getscript-quoted": quoted}), store={"s": body}, active=None)
            s = wire.open_session(srv)
            o = s.call("getscript", "s")
            n += 1
            ok = o.kind == "ret" and isinstance(o.value, str) and norm_lines(o.value) == norm_lines(body)
            distinct.add((body, quoted))
            if not ok:
                first = norm_lines(body)[0] if norm_lines(body) else ""
                cls = "empty" if not body else ("first-line-lookalike:%s" % first if first in ("{5}", "{3+}") else
                                                ("no-final-newline" if not body.endswith(b"\n") else "body"))
                if o.kind != "ret":
                    sym = "exception:%s" % o.exc_type if o.kind == "exc" else o.kind
                else:
                    sym = "wrong-value"
                viols.append({"property": "C17", "engine": "wire", "signature": ["C17", "getscript", ("quoted/" if quoted else "literal/") + cls, sym],
                              "what": "stored body %r (%s) read back as %s" % (body, "quoted" if quoted else "literal", o.brief()),
                              "case": {"kind": "body", "body_hex": body.hex(), "quoted": quoted},
                              "witness": "getscript of %r sent %s" % (body, "quoted" if quoted else "as literal"), "observed": o.brief()})
            elif sample is None and len(body) > 12:
                sample = {"stored": body.decode("utf-8", "replace"), "returned": o.value}
    return dict(n=n, distinct=len(distinct), violations=viols, sample=sample)


def name_sets(maxn):
    for k in range(0, maxn + 1):
        for names in itertools.permutations(NAME_POOL, k) if k <= 1 else itertools.combinations(NAME_POOL, k):
            yield names


def list_task(t):
    lo, hi, maxn = t
    sets = list(name_sets(maxn))[lo:hi]
    viols = []
    n = 0
    distinct = set()
    sample = None
    for names in sets:
        for act_i in [None] + list(range(len(names))):
            active = names[act_i] if act_i is not None else None
            for encs in itertools.product((0, 1), repeat=len(names)):
              for marker in ((b"ACTIVE", b"active", b"Active") if active is not None and len(names) <= 2 else (b"ACTIVE",)):
                enc_iter = list(encs)
                ch = refms.FixedChoices({"list-name-literal": (lambda k, e=enc_iter: e[k] if k < len(e) else 0)})
                srv = refms.RefServer(ch=ch, store={nm: b"keep;\r\n" for nm in names}, active=active)
                srv.active_marker = marker
                s = wire.open_session(srv)
                o = s.call("listscripts")
                n += 1
                want_others = sorted(x for x in names if x != active)
                ok = (o.kind == "ret" and isinstance(o.value, tuple) and len(o.value) == 2 and o.value[0] == active
                      and sorted(o.value[1] or []) == want_others)
                distinct.add((names, act_i, encs))
                if not ok:
                    # class: which name/encoding goes wrong first
                    cls = []
                    for nm, e in zip(names, encs):
                        kind = "literal" if (e or not refms.can_quote(nm.encode())) else "quoted"
                        c = nm if nm in ("OK", "NO x", "{3}", "{3+}", "x ACTIVE", "ACTIVE") else (
                            "escaped" if ('"' in nm or "\\" in nm) else "plain")
                        cls.append("%s:%s%s" % (kind, c, "*" if nm == active else ""))
                    sym = "wrong-value" if o.kind == "ret" else ("exception:%s" % o.exc_type if o.kind == "exc" else o.kind)
                    viols.append({"property": "C17", "engine": "wire", "signature": ["C17", "listscripts", " ".join(sorted(cls)), sym],
                                  "what": "server holds %r (active %r), encodings %r: listscripts gave %s" % (names, active, encs, o.brief()),
                                  "case": {"kind": "list", "names": list(names), "active": active, "encs": list(encs), "marker": marker.decode()},
                                  "witness": "listscripts of %r active=%r literal-flags=%r" % (names, active, encs), "observed": o.brief()})
                elif sample is None and len(names) == 2 and active:
                    sample = {"names": list(names), "active": active, "returned": repr(o.value)}
    return dict(n=n, distinct=len(distinct), violations=viols, sample=sample)


def boundary_task(t):
    """replies longer than the client's read size: every alignment of the protocol structure with the 4096-byte read boundary"""
    lo, hi = t
    viols = []
    n = 0
    for k in range(lo, hi):
        body = b"#" + b"a" * k + b"\r\nkeep;\r\n{5}\r\nOK\r\n"
        srv = refms.RefServer(store={"s": body}, active=None)
        s = wire.open_session(srv)
        o = s.call("getscript", "s")
        n += 1
        if not (o.kind == "ret" and isinstance(o.value, str) and norm_lines(o.value) == norm_lines(body)):
            viols.append({"property": "C17", "engine": "wire", "signature": ["C17", "getscript", "read-size-boundary", "wrong-value" if o.kind == "ret" else o.kind],
                          "what": "body of %d bytes read back as %s" % (len(body), o.brief()[:80]), "case": {"kind": "boundary-body", "k": k},
                          "witness": "getscript of a %d-byte body" % len(body), "observed": o.brief()[:120]})
        names = ["x" * k, 'lit"name', "main"]
        ch = refms.FixedChoices({"list-name-literal": (lambda i: 1 if i >= 1 else 0)})
        srv = refms.RefServer(ch=ch, store={nm: b"keep;\r\n" for nm in names}, active="main")
        s = wire.open_session(srv)
        o = s.call("listscripts")
        n += 1
        ok = (o.kind == "ret" and isinstance(o.value, tuple) and len(o.value) == 2 and o.value[0] == "main" and sorted(o.value[1] or []) == sorted(names[:2]))
        if not ok:
            viols.append({"property": "C17", "engine": "wire", "signature": ["C17", "listscripts", "read-size-boundary", "wrong-value" if o.kind == "ret" else o.kind],
                          "what": "listing with a %d-character first name read back as %s" % (k, o.brief()[-120:]), "case": {"kind": "boundary-list", "k": k},
                          "witness": "listscripts with a %d-character first name" % k, "observed": o.brief()[-120:]})
    return dict(n=n, distinct=n, violations=viols, sample=None)


def escape_task(t):
    """names holding k characters that are escaped inside a quoted string, for every k in a window (no counter, cap or fixed-size
    scratch of an unescaping routine may show through), alone and next to a plain name, the active one or not"""
    lo, hi = t
    viols = []
    n = 0
    for k in range(lo, hi):
        for unit in ('"', "\\", 'a"', '\\"'):
            nm = (unit * k)[:1020]
            for active in (None, nm, "plain"):
                srv = refms.RefServer(store={nm: b"keep;\r\n", "plain": b"keep;\r\n"}, active=active)
                s = wire.open_session(srv)
                o = s.call("listscripts")
                n += 1
                want = sorted(x for x in (nm, "plain") if x != active)
                ok = (o.kind == "ret" and isinstance(o.value, tuple) and len(o.value) == 2 and o.value[0] == active and sorted(o.value[1] or []) == want)
                if not ok:
                    viols.append({"property": "C17", "engine": "wire", "signature": ["C17", "listscripts", "escape-count:" + repr(unit), "wrong-value" if o.kind == "ret" else o.kind],
                                  "what": "a name of %d x %r (quoted, escaped) read back as %s" % (k, unit, o.brief()[:160]), "case": {"kind": "escapes", "k": k},
                                  "witness": "listscripts with the name %r * %d" % (unit, k), "observed": o.brief()[:120]})
    return dict(n=n, distinct=n, violations=viols, sample=None)


def longname_task(t):
    """names and one-line bodies at the size limit of a quoted string (1024 octets), delivered whole, byte-wise and with a boundary in
    the last octets of the line"""
    lo, hi = t
    viols = []
    n = 0
    for k in range(lo, hi):
        nm = "n" * k
        line_len = k + 2 + len(" ACTIVE") + 2
        segs = [None, ("cap", 1), ("cap", 7), ("cap", 1039), ("cap", 1460)] + [("cuts", [line_len - d]) for d in range(1, 12)]
        for seg in segs:
            srv = refms.RefServer(store={nm: b"keep;\r\n", "b": b"keep;\r\n"}, active=nm)
            s = wire.open_session(srv)
            s.cur_socket().set_seg(seg)
            o = s.call("listscripts")
            n += 1
            if not (o.kind == "ret" and isinstance(o.value, tuple) and o.value[0] == nm and list(o.value[1] or []) == ["b"]):
                viols.append({"property": "C17", "engine": "wire", "signature": ["C17", "listscripts", "long-quoted-name", "wrong-value" if o.kind == "ret" else (o.exc_type or o.kind)],
                              "what": "a %d-octet quoted active name delivered %r read back as %s" % (k, seg, o.brief()[-100:]), "case": {"kind": "longname", "k": k},
                              "witness": "listscripts with a %d-octet name, delivery %r" % (k, seg), "observed": o.brief()[-100:]})
            body = b"#" + b"b" * (k - 1)
            srv = refms.RefServer(ch=refms.FixedChoices({"getscript-quoted": 1}), store={"s": body}, active=None)
            s = wire.open_session(srv)
            s.cur_socket().set_seg(seg)
            o = s.call("getscript", "s")
            n += 1
            if not (o.kind == "ret" and isinstance(o.value, str) and norm_lines(o.value) == norm_lines(body)):
                viols.append({"property": "C17", "engine": "wire", "signature": ["C17", "getscript", "long-quoted-body", "wrong-value" if o.kind == "ret" else (o.exc_type or o.kind)],
                              "what": "a %d-octet one-line body sent quoted, delivered %r, read back as %s" % (k, seg, o.brief()[-100:]), "case": {"kind": "longname", "k": k},
                              "witness": "getscript of a %d-octet quoted body, delivery %r" % (k, seg), "observed": o.brief()[-100:]})
    return dict(n=n, distinct=n, violations=viols, sample=None)


def many_task(t):
    """listings of N names (short lines, replies far longer than one read): every name must come back, whatever N"""
    N, lit_every = t
    names = ["script-%04d" % i for i in range(N)]
    ch = refms.FixedChoices({"list-name-literal": (lambda k: 1 if lit_every and k % lit_every == 0 else 0)})
    viols = []
    n = 0
    # (the client's line reader re-scans its buffer: tiny segments of a very long listing cost quadratic time, which is no claim of
    # C17 - the 7-octet cap is kept for listings of up to 1024 names)
    for seg in ((None, ("cap", 4096), ("cap", 1460), ("cap", 7)) if N <= 1024 else (None, ("cap", 4096), ("cap", 1460))):
        srv = refms.RefServer(ch=ch, store={nm: b"keep;\r\n" for nm in names}, active=names[N // 2])
        s = wire.open_session(srv)
        s.cur_socket().set_seg(seg)
        o = s.call("listscripts")
        n += 1
        ok = (o.kind == "ret" and isinstance(o.value, tuple) and len(o.value) == 2 and o.value[0] == names[N // 2]
              and sorted(o.value[1] or []) == sorted(x for x in names if x != names[N // 2]))
        if not ok:
            viols.append({"property": "C17", "engine": "wire", "signature": ["C17", "listscripts", "many-names", "wrong-value" if o.kind == "ret" else (o.exc_type or o.kind)],
                          "what": "listing of %d names (every %r-th as a literal) delivered %r read back as %s" % (N, lit_every, seg, o.brief()[:120]),
                          "case": {"kind": "many", "N": N, "lit_every": lit_every}, "witness": "listscripts with %d names, delivery %r" % (N, seg), "observed": o.brief()[:120]})
    return dict(n=n, distinct=n, violations=viols, sample=None)


def run(tier, seed):
    maxlines = 3 if tier == "quick" else 4
    maxn = 3 if tier == "quick" else 4
    nb = len(W.bodies(maxlines))
    step = max(1, nb // 16 + 1)
    bt = [(lo, lo + step, maxlines) for lo in range(0, nb, step)]
    ns_ = len(list(name_sets(maxn)))
    step2 = max(1, ns_ // 16 + 1)
    lt = [(lo, lo + step2, maxn) for lo in range(0, ns_, step2)]
    r1 = pool.run_tasks("checks.c17:body_task", bt)
    r2 = pool.run_tasks("checks.c17:list_task", lt)
    r3 = pool.run_tasks("checks.c17:boundary_task", [(lo, lo + 8) for lo in range(4040, 4120, 8)] + ([(lo, lo + 8) for lo in range(8130, 8220, 8)] if tier != "quick" else []))
    top = 64 if tier == "quick" else 512
    r4 = pool.run_tasks("checks.c17:escape_task", [(lo, min(top + 1, lo + 8)) for lo in range(1, top + 1, 8)])
    sizes = [2 ** k for k in range(4, 11 if tier == "quick" else 14)] + [300, 400, 1000]
    r5 = pool.run_tasks("checks.c17:many_task", [(N, le) for N in sizes for le in (0, 3)])
    r6 = pool.run_tasks("checks.c17:longname_task", [(k, k + 2) for k in range(1000 if tier == "quick" else 900, 1025, 2)])
    res = r1 + r2 + r3 + r4 + r5 + r6
    n = sum(r["n"] for r in res)
    viols = []
    for r in res:
        viols.extend(r["violations"])
    cov = dict(states=n, transitions=n, traces_validated_against_impl=n, evaluations=n, distinct_nontrivial=sum(r["distinct"] for r in res),
               rule="E3: getscript for every body of <= %d lines over %r x LF/CRLF x final newline or not x literal/quoted encoding; listscripts for every "
                    "set of <= %d names from %r x active position x every per-name quoted/literal encoding; compared with the reference server's store "
                    "(bodies line by line ignoring line-ending style and trailing blank lines)" % (maxlines, [l.decode("utf-8") for l in W.LOOKALIKE_LINES], maxn, NAME_POOL),
               samples=[r["sample"] for r in res if r["sample"]][:5] or [{"note": "none"}], exhaustive=True, bodies=nb, name_sets=ns_)
    return dict(violations=viols, coverage=cov, harness_errors=[], assumptions=["reference server stores and returns bodies byte-exactly"])


def replay(payload):
    c = payload["case"]
    if c["kind"] == "longname":
        return [v for v in longname_task((c["k"], c["k"] + 1))["violations"] if v["signature"] == payload["signature"]]
    if c["kind"] == "many":
        return many_task((c["N"], c["lit_every"]))["violations"]
    if c["kind"] == "escapes":
        r = escape_task((c["k"], c["k"] + 1))
        return [dict(v, signature=v["signature"]) for v in r["violations"]]
    if c["kind"].startswith("boundary"):
        r = boundary_task((c["k"], c["k"] + 1))
        return [v for v in r["violations"] if v["case"]["kind"] == c["kind"]]
    if c["kind"] == "body":
        body = bytes.fromhex(c["body_hex"])
        srv = refms.RefServer(ch=refms.FixedChoices({"getscript-quoted": c["quoted"]}), store={"s": body}, active=None)
        s = wire.open_session(srv)
        o = s.call("getscript", "s")
        if not (o.kind == "ret" and isinstance(o.value, str) and norm_lines(o.value) == norm_lines(body)):
            sig = list(payload["signature"])
            return [{"property": "C17", "signature": sig, "what": "body %r read back as %s" % (body, o.brief()), "witness": payload.get("witness"), "observed": o.brief()}]
        return []
    names, active, encs = c["names"], c["active"], c["encs"]
    ch = refms.FixedChoices({"list-name-literal": (lambda k, e=list(encs): e[k] if k < len(e) else 0)})
    srv = refms.RefServer(ch=ch, store={nm: b"keep;\r\n" for nm in names}, active=active)
    s = wire.open_session(srv)
    o = s.call("listscripts")
    ok = (o.kind == "ret" and isinstance(o.value, tuple) and len(o.value) == 2 and o.value[0] == active
          and sorted(o.value[1] or []) == sorted(x for x in names if x != active))
    if not ok:
        return [{"property": "C17", "signature": payload["signature"], "what": "listscripts gave %s" % o.brief(), "witness": payload.get("witness"), "observed": o.brief()}]
    return []
